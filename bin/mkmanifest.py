#!/usr/bin/env python3
"""Regenerates /verif/MANIFEST.json from the table below (single source of truth)."""
import json, os, subprocess
V = os.path.dirname(os.path.dirname(os.path.abspath(__file__)))
hook_commits = subprocess.run(["git", "-C", "/repo", "log", "--format=%h %s", "--grep=^verif hooks"], stdout=subprocess.PIPE, text=True).stdout.strip().splitlines()

CHECKS = {
 "C01": ("model_checking", "TLC model checking of LzmaCoding/LzmaDecoder + replay of every exported behaviour and long spec walks into lzma-rs",
         "TLC explores all symbol programs of the bounded models (implementation-shaped circular-window decoder refines the unbounded-history format semantics; context indices in bounds for every lc/lp/pb of the run) and every exported behaviour is range-coded from TLC's own decision lists and decoded by the real one-shot, raw and streaming decoders; long walks age the adaptive state. Right level: the property quantifies over programs x settings, which is what the model enumerates; the 32-bit arithmetic is outside TLA+ and is covered by differential execution through the kernel. The end marker is modelled as a symbol of any length (eosn); raw-API behaviours are also decoded on a reset object that decoded another stream before. Clause ownership: acceptance and exact bytes of well-formed streams on the one-shot and raw decoders (Stream cases and reset-vs-new comparisons are DRIFT here); raw dictionaries below 4096 are judged against both readings of 'dictionary size in effect'.",
         "5 C01"),
 "C08": ("model_checking", "TLC model checking of LzmaDecoder (size/marker rules) + replay of every exported terminal behaviour",
         "All terminations (size reached exactly, overshoot by a match, marker before size, input ends early, marker, clean end without marker) of all bounded programs are enumerated by TLC with the SizeRule/Verdict invariants and replayed into the raw decoder; option x header-field combinations are replayed on the one-shot and streaming APIs. LzmaHeader.tla (all 256 property bytes, dictionary clamp, 13/13/5 header bytes, size override, size classes up to 2^64-2) and EntryPoints.tla (the end / size rules stated declaratively over classes: SizeExact, OverrideRule, MarkerEnds, TrailIgnored, OptionsAgree) are model-checked and every exported case is replayed through lzma_decompress, lzma_decompress_with_options, LzmaParams::read_header + LzmaDecoder, a raw decoder re-sized through reset, and Stream (one write / bytewise). Each comparison names its clause (accept-valid, output-length, reject:<class>, header-bytes ...) and only the clauses C08 states raise a violation: number of bytes produced under a size in effect, the reject rules, the override, and 13/13/5 header bytes (observed through LzmaParams::read_header); other clauses seen on the way are DRIFT.",
         "5 C08"),
 "C09": ("model_checking", "TLC model checking of the circular window (NoFabrication, Verdict) + replay of every behaviour ending in an out-of-window copy",
         "TLC proves for the bounded model that the transcribed window code never reads an unwritten cell and errs exactly when the format says the copy is invalid; each such behaviour (distance > produced, > dictionary, huge, via matched literal; before and after the wrap) is replayed on the raw decoder with the same real dictionary size. Fabrication probes (a lenient decoder is given a consistent continuation) cover every entry point incl. Stream with allow_incomplete, a decoder object used twice without reset (carried repeat distances against a new window) and LZMA2 dictionary-reset chunks on both sides of 64 KiB.",
         "5 C09"),
 "C10": ("model_checking", "TLC model checking of BufBound/Verdict under every memory limit + replay into the raw decoder",
         "For every limit m in 0..D and none, TLC checks that the modelled window never exceeds m and fails exactly when min(D, produced) > m; the behaviours are replayed with memlimit = m on the real decoder (verdict and bytes). Judged relative to the real run without a limit, as the property is stated.",
         "5 C10"),
 "C05": ("model_checking", "TLC model checking of Stream.tla (all shapes x all chunkings; real constants read from the code) + TLC trace validation of recorded Stream executions + differential against the one-shot decoder",
         "EqOneShot is checked by TLC on every composition of every bounded stream shape into write calls, and on the real constants (read from the implementation through the hook) with symbols costing up to the format bound of 20 bytes. The model is bound to the code by validating every call of seeded runs of the real Stream (return value, phase, tmp fill, partial-buffer fill, committed symbols) against the specification; the contract (verdict and bytes equal to the one-shot decoder on the same input) is compared for every run. Tiny streams are fed in every composition into <= 3 writes under all option styles; flush() is part of every other call sequence; streams of several window lengths (4 KiB dictionary) are included. A counterexample of Stream.tla at the constants read from the code is shape tier (DRIFT); violations come from executions of the real Stream.",
         "5 C05"),
 "C15": ("model_checking", "TLC model checking of Lag/Progress in Stream.tla + trace validation + prefix runs with allow_incomplete on the real Stream",
         "Lag (accepted-but-uncommitted bytes = partial buffer + staging buffer <= 27) and Progress (whatever is decodable from the accepted bytes is committed) are invariants of Stream.tla checked for all shapes x chunkings; on the real code every sampled prefix of valid streams is fed under random chunkings with allow_incomplete: sink and finish() output must be prefixes of the full output and include all symbols ending 64 bytes before the cut; finish must succeed iff header + preamble are inside the prefix. Includes a 13 KB stream over a 4 KiB dictionary (prefixes before, at and after the window wraps).",
         "5 C15"),
 "C16": ("model_checking", "TLC model checking of the Latch action property + trace validation of call sequences that continue after failure / completion",
         "Latch ([][phase = None => nothing moves]_vars) and NoZeroProgress are checked on every behaviour of the bounded models; real call sequences keep calling write/flush after the first error or after the declared size was reached and every call is validated against the spec; contract: no consumption, no sink growth, finish is Err after a failed write; Ok(0) and unchanged output after completion; no panic. Includes declared sizes that fall strictly inside a copy with more input following (the sink may never hold more than the symbols up to the completing one produce) and Flush events in the validated traces. Only C16's clauses raise a violation (latch after a failed write, finish is Err, no panic, and: once the calls have taken the payload plus 64 KiB every later write consumes nothing); the comparison with the one-shot decoder and what flush() does are DRIFT here.",
         "5 C16"),
 "C03": ("model_checking", "TLC model checking of Xz.tla (AcceptsWellFormed, PadLemma) + replay of every exported well-formed file into xz_decompress",
         "TLC enumerates every well-formed supported file of the bounded model and checks that the field-level transcription of the parser (with the code's own padding and record arithmetic) accepts it; the harness serialises each abstract file (own CRC32/CRC64) and the real decoder must return exactly the concatenation of the block contents. Every accepted file is decoded right after a decode that fails inside a block on the same thread, through fragmenting sources and into short-writing sinks.",
         "5 C03"),
 "C06": ("model_checking", "TLC model checking of Xz.tla (AcceptImpliesIntegrity, SinkOnlyVerified, MutationsAreCaught) + replay of every single-field mutation (CRCs repaired) + exhaustive bit flips / truncations of small files",
         "Every single-field mutation of every bounded file is enumerated by TLC (parser transcription vs declarative integrity, with the footer comparison in the arithmetic the code uses) and replayed byte-exactly with all enclosing CRCs recomputed, so only the field's own validation can reject it; in addition every single-bit flip and every truncation of small CRC32/CRC64 files must fail or leave the output identical. Mutations include a self-consistent index listing fewer records than blocks; every rejected file is also decoded through fragmenting sources (1-byte, odd, every two-fragment split near the footer and inside the mutated header padding) and must be rejected there too. Selected mutations are the integrity fields C06 lists (those only C18 states - stream padding, reserved block flags, foreign filters, filter chains - are not selected); a panic is C07's business under C06.",
         "5 C06"),
 "C18": ("model_checking", "TLC model checking of Xz.tla (UnsupportedRefused) + replay of every file using an unsupported feature",
         "All 16 check ids, foreign filter ids, two-filter chains, wrong filter property sizes, reserved bits and trailing bytes are enumerated on every bounded file by TLC and replayed: the real decoder must return an error. Rejected files are also decoded through fragmenting sources (every two-fragment split of the last 16 + trailing bytes).",
         "5 C18"),
 "C02": ("model_checking", "TLC model checking of Lzma2.tla (Refines, Verdict) + replay of every exported well-formed chunk sequence + long spec-driven chunk sequences",
         "TLC enumerates all format-valid chunk sequences of the bounded model (every reset class after every chunk kind, matches into data of earlier compressed and uncompressed chunks) and checks the transcribed chunk layer against the declarative chunk semantics; each behaviour is serialised by an encoder that carries state, rep distances and probabilities across chunks exactly as the format says, so a missing or spurious reset in the code desynchronises; long random chunk sequences add aged probabilities, size extremes and property changes. A well-formed stream offered twice to the same Lzma2Decoder without reset must give the same bytes (RawReuse!WellFormedStartIsFresh).",
         "5 C02"),
 "C17": ("model_checking", "TLC model checking of Lzma2.tla (FramingRejected, Verdict) + replay of every chunk sequence ending in one framing fault",
         "Each framing fault of the property statement is an action or a parameter of the chunk model; TLC checks that the transcribed decoder ends in an error for all of them at every chunk position of the bounded model and the harness replays each one into lzma2_decompress, the raw decoder and a one-block .xz. Seeded long well-formed chunk sequences get one framing fault injected at a random chunk (control byte, properties byte, declared sizes +-1..65536, cut, end byte, lowered reset class, stray bytes). Spare declared input after the last symbol is an error only if at least one more output byte is decodable from it (otherwise the verdict is open); malformed framing accepted by an object that had rejected the same stream before is reported.",
         "5 C17"),
 "C12": ("model_checking", "TLC model checking of IoFaults.tla + exhaustive fault enumeration per input on every entry point, call logs validated by TLC against the I/O contract",
         "IoFaults.tla states the contract over individual sink/source calls (error iff a call failed, accepted bytes always a prefix, complete and flushed on Ok) and is model-checked against a reference write_all pipeline under every fault script; on the real code every fault position (each write as Err and as Ok(0), each flush, each read) of every sample input is enumerated for all decoders, the raw LZMA2 decoder, Stream and all encoder variants, with short-write patterns; the recorded call logs are validated by TLC with the contract as invariant. Every finished behaviour of MC_IoFaults is replayed as a positional script of sink answers (short writes followed by a failure, Ok(0), failing flush) on every entry point; empty plaintexts and Stream::flush are included. After an Ok(0) answer of the sink both an error and a complete delivery are accepted; the flush clause is demanded of the LZMA / LZMA2 decoders.",
         "5 C12"),
 "C11": ("model_checking", "TLC model checking of Reader.tla / RangeCoderSmall.tla (LockStep) / LzmaDecoder.tla / Lzma2.tla + replay with the consumed-bytes comparison on; embedded payloads with trailing bytes through several reader kinds",
         "The stop rules (size reached, end control byte) are actions of the decoder models and every successful behaviour TLC exports is replayed with the reader position compared against the end of the payload; payloads followed by arbitrary bytes are decoded in place through slices, Cursors, scripted sources and BufReaders of several capacities. The byte position itself (decoder consumption = encoder emission) is range-coder arithmetic and comes from the harness kernel, not from TLA+. EntryPoints.tla cases are replayed with the consumed-bytes comparison through the plain, option, building-block and re-sized raw entry points.",
         "5 C11"),
 "C13": ("model_checking", "TLC model checking of Reader.tla (FragIndependent under every fragment choice) + differential runs under scripted fragmentation with the BufRead protocol log validated by TLC",
         "Reader.tla lets the source expose any non-empty prefix at every fill_buf and shows the decoders' helper loops give fragment-independent verdict and consumption; on the real code valid and invalid inputs of all three formats are decoded through 1-byte, 2-byte, mixed and random fragments and BufReader capacities 1..random and compared with the all-at-once run, and every fill/consume/read call of the scripted source is validated against the protocol specification. Inputs include all three header options, the raw building blocks and .xz files whose index integers are not minimally encoded.",
         "5 C13"),
 "C14": ("model_checking", "TLC model checking of RawReuse.tla (ResetIsFresh over all operation histories) + real decoder histories compared with new decoders, projections validated by TLC",
         "RawReuse.tla lets a decode leave any used state behind and checks that reset restores the projection of a new decoder; on the real objects seeded histories of valid / corrupt / truncated / property-changing / state-leaning streams and all reset variants are run, every decompress after a reset is repeated on a new object (verdict and bytes must agree) and the projection hook after every call is validated against the specification. Sweeps: every way of re-declaring the size (none, 0, n, n+1, 2^32+n, 2^63, 2^64-2, 2^64-1) on every pool stream; first use (any pool stream) -> reset -> state-leaning probe for Lzma2Decoder; RawReuse also shows why a well-formed LZMA2 stream does not depend on the object's history (L2FirstChunk).",
         "5 C14"),
 "C04": ("model_checking", "TLC model checking of Encoder.tla and RangeCoderSmall.tla + TLC validation of the structure parsed from real encoder outputs + differential round trip through three decoders (incl. a corpus of inputs that put the range encoder on its flush-test boundaries)",
         "Encoder.tla maps (input, source fragmentation, option) to the abstract symbol / chunk / field structure; TLC checks for all inputs up to 7 bytes, all options and all fragmentations that the format semantics decode it back to the input and that the container arithmetic is the format's. Real outputs for lengths around 0 and k*64 KiB x content families x fragmentations are parsed back and validated by TLC against that structure, and decoded by lzma-rs, the harness reference decoder and liblzma (when the xz program exists). The range encoder's carry arithmetic is outside TLA+ and is covered by the differential part. The corpus also holds inputs that make a carry ripple through 3..26 pending bytes of the range encoder (steered search), and inputs longer than the 8 MiB dictionary the encoder announces. Contract tier (what raises a VIOLATION): the output decodes back through lzma-rs, through the harness' reference decoders (which accept any structure: .lzma, LZMA2, and a reference .xz container parser) and through liblzma when present; the comparison of the emitted STRUCTURE with Encoder.tla (Trace_Encoder) is shape tier (DRIFT), because C04 does not fix which symbols, parameters, chunk boundaries or check type the encoders use.",
         "5 C04"),
 "C07": ("model_checking", "TLC invariants for index/arith bounds and termination on the structural models + seeded exploration of all decoding entry points with panic capture, watchdog and counting allocator, outcomes validated by TLC against Totality.tla",
         "Model checking covers the structured part: every probability index inside its table for all 225 lc/lp/pb, window cursor/buffer bounds, no narrowing arithmetic in the container model, liveness of the decoder loop. The 'every byte string' part is necessarily exploration: 200 000 (quick) seeded inputs - random, mutated valid streams, CRC-repaired field extremes, huge headers, long outputs - through all six entry points with all options; each outcome (Ok/Err, bytes consumed/produced, peak heap) is an event that TLC validates against Totality.tla (no panic / hang event exists in the specification; peak <= A0 + K*(input+produced)).",
         "5 C07, 8"),
}
NOT_YET = {}
props = [json.loads(l) for l in open(os.path.join(V, "properties.jsonl"))]
checks = []
for p in props:
    pid = p["id"]
    if pid in CHECKS:
        level, tech, text, ref = CHECKS[pid]
        checks.append({
            "property_id": pid,
            "quick_cmd": "bin/check %s --tier quick" % pid,
            "thorough_cmd": "bin/check %s --tier thorough" % pid,
            "evidence_file": "evidence/%s.json" % pid,
            "replay_cmd_template": "bin/check %s --replay {path}" % pid,
            "engine": "tlc+lzverif",
            "level_claimed": {"category": level, "text": text, "design_ref": "DESIGN.md section " + ref},
            "level_note": "Trusted: TLC/SANY; the TLA+ modules; the harness arithmetic kernel and reference decoder (cross-checked against lzma-rs and the TLC predictions on every run); bounded model constants are stated in the evidence file.",
            "technique": tech,
        })
na = [{"property_id": p["id"], "reason": NOT_YET.get(p["id"], "check not built yet in this round (planned: see DESIGN.md section 5)")} for p in props if p["id"] not in CHECKS]
m = {
 "version": 1,
 "setup_cmd": "bin/setup",
 "hooks": {
   "guard": "--cfg lzma_rs_verif",
   "enable": "harness/.cargo/config.toml sets rustflags = [\"--cfg\", \"lzma_rs_verif\"]; the harness depends on /repo by path with features stream,raw_decoder",
   "baseline_off_cmd": "cd /repo && cargo test --workspace --no-fail-fast --offline",
   "source_commits": [c.split()[0] for c in hook_commits],
   "add_only": True,
 },
 "engines": [
   {"name": "tlc", "path": "spec/", "serves_properties": [c["property_id"] for c in checks], "kind_free_text": "TLA+ specifications model-checked by TLC; trace specifications for validation of recorded executions"},
   {"name": "lzverif", "path": "harness/", "serves_properties": [c["property_id"] for c in checks], "kind_free_text": "Rust conformance harness: replays TLC-exported behaviours into lzma-rs and records executions for trace validation"},
 ],
 "checks": checks,
 "not_applicable": na,
 "notes": "bin/check <ID> exits 0 (held), 1 (VIOLATION line + replay file), 2 (tool error / timeout: nothing claimed). known_findings.json lists recorded findings.",
}
json.dump(m, open(os.path.join(V, "MANIFEST.json"), "w"), indent=1)
print("wrote MANIFEST.json:", len(checks), "checks,", len(na), "not applicable")

"""Shared machinery for /verif/bin/check: harness build, TLC runs, evidence, replays."""
import fcntl, hashlib, json, os, re, subprocess, sys, time

VERIF = os.path.dirname(os.path.dirname(os.path.abspath(__file__)))
SPEC = os.path.join(VERIF, "spec")
HARNESS = os.environ.get("VERIF_HARNESS", os.path.join(VERIF, "harness"))
CACHE = os.path.join(VERIF, "cache")
WORK = os.environ.get("VERIF_WORK", os.path.join(VERIF, "work"))
EVID = os.environ.get("VERIF_EVIDENCE", os.path.join(VERIF, "evidence"))
REPLAYS = os.environ.get("VERIF_REPLAYS", os.path.join(VERIF, "replays"))
REPO = os.environ.get("VERIF_REPO", "/repo")
BIN = os.path.join(HARNESS, "target", "release", "lzverif")
BIN_PLAIN = os.path.join(HARNESS, "target-plain", "release", "lzverif")

class ToolError(Exception):
    pass

def log(*a):
    print("[check]", *a, file=sys.stderr, flush=True)

def ensure_dirs():
    for d in (CACHE, WORK, EVID, REPLAYS):
        os.makedirs(d, exist_ok=True)

# ----------------------------------------------------------------------------- build

def build_harness():
    """Build the harness against the current /repo tree (hooks on). Falls back to the
    un-hooked build if the hooked one does not compile. Returns (binary, hooked)."""
    ensure_dirs()
    lockf = open(os.path.join(WORK, ".build.lock"), "w")
    fcntl.flock(lockf, fcntl.LOCK_EX)
    try:
        env = dict(os.environ, CARGO_NET_OFFLINE="true")
        t0 = time.time()
        r = subprocess.run(["cargo", "build", "--release", "--offline"], cwd=HARNESS, env=env,
                           stdout=subprocess.PIPE, stderr=subprocess.STDOUT, text=True)
        if r.returncode == 0:
            log("harness built (hooked) in %.1fs" % (time.time() - t0))
            return BIN, True
        log("hooked build failed; trying the plain build\n" + r.stdout[-3000:])
        env2 = dict(env, RUSTFLAGS="--cfg lzverif_nohooks")
        r2 = subprocess.run(["cargo", "build", "--release", "--offline", "--target-dir", "target-plain"],
                            cwd=HARNESS, env=env2, stdout=subprocess.PIPE, stderr=subprocess.STDOUT, text=True)
        if r2.returncode == 0:
            log("harness built (plain, hooks off)")
            return BIN_PLAIN, False
        raise ToolError("the harness does not build against the current /repo tree:\n" + r2.stdout[-4000:])
    finally:
        fcntl.flock(lockf, fcntl.LOCK_UN)

# ----------------------------------------------------------------------------- TLC

def run_tlc(module, cfg, tag, workers=8, timeout=900, env_extra=None, simulate=None, seed=None,
            coverage=True, heap=None, deque=False, allow_violation=False):
    """Run TLC on spec/<module>.tla with spec/<cfg>. Returns dict with parsed statistics and
    the path of the full output (which contains exported behaviours)."""
    ensure_dirs()
    out = os.path.join(WORK, "tlc_%s.out" % tag)
    meta = os.path.join(WORK, "tlcmeta_%s_%d" % (tag, os.getpid()))
    jopts = "-Xss1g"
    if deque:
        jopts += " -Dtlc2.tool.queue.IStateQueue=StateDeque"
    if heap:
        jopts += " -Xmx%s" % heap
    env = dict(os.environ, JAVA_TOOL_OPTIONS=jopts)
    if env_extra:
        env.update(env_extra)
    cmd = ["timeout", str(timeout), "tlc", "-workers", str(workers), "-metadir", meta, "-cleanup",
           "-noGenerateSpecTE", "-config", cfg]
    if coverage and not simulate:
        cmd += ["-coverage", "1"]
    if simulate:
        cmd += ["-simulate", simulate]
    if seed is not None:
        cmd += ["-seed", str(seed)]
    cmd += [module + ".tla"]
    t0 = time.time()
    with open(out, "w") as f:
        r = subprocess.run(cmd, cwd=SPEC, env=env, stdout=f, stderr=subprocess.STDOUT)
    wall = time.time() - t0
    subprocess.run(["rm", "-rf", meta])
    res = {"module": module, "cfg": cfg, "out": out, "rc": r.returncode, "wall_s": round(wall, 1),
           "generated": 0, "distinct": 0, "depth": 0, "actions": {}, "ok": False, "error": None}
    err_lines = []
    act = re.compile(r"^<(\w+) line \d+, col \d+ to line \d+, col \d+ of module (\w+)>: (\d+):(\d+)")
    with open(out, errors="replace") as f:
        for line in f:
            if line.startswith("<<"):
                continue
            m = re.search(r"(\d+) states generated, (\d+) distinct states found", line)
            if m:
                res["generated"], res["distinct"] = int(m.group(1)), int(m.group(2))
            m = re.search(r"depth of the complete state graph search is (\d+)", line)
            if m:
                res["depth"] = int(m.group(1))
            m = act.match(line)
            if m:
                a = res["actions"].setdefault(m.group(1), [0, 0])
                a[0] += int(m.group(3)); a[1] += int(m.group(4))
            if "No error has been found" in line or (simulate and "Finished in" in line and not err_lines):
                res["ok"] = True
            if line.startswith("Error:") or "is violated" in line or "Invariant" in line and "violated" in line:
                err_lines.append(line.strip())
    if err_lines:
        res["ok"] = False
        res["error"] = "; ".join(err_lines[:4])
    if r.returncode == 124:
        res["ok"] = False
        res["error"] = "TLC timed out after %ds" % timeout
    if not res["ok"] and not allow_violation:
        tail = subprocess.run(["sh", "-c", "grep -v '^<<' '%s' | tail -40" % out], stdout=subprocess.PIPE, text=True).stdout
        raise ToolError("TLC run %s/%s did not complete cleanly: %s\n%s" % (module, cfg, res["error"], tail))
    log("TLC %s/%s: %d generated, %d distinct, depth %d, %.1fs" % (module, cfg, res["generated"], res["distinct"], res["depth"], wall))
    return res

def vacuous_actions(res, ignore=()):
    return [a for a, (d, g) in res["actions"].items() if g == 0 and a not in ignore]

def validate_trace(trace_module, cfg, trace_file, tag, env_extra=None, timeout=600):
    """Trace validation: TLC must be able to consume every line of trace_file.
    Returns (accepted: bool, info)."""
    env = {"TRACE": trace_file}
    if env_extra:
        env.update(env_extra)
    res = run_tlc(trace_module, cfg, tag, workers=1, timeout=timeout, env_extra=env, coverage=False,
                  heap="4g", deque=True, allow_violation=True)
    text = open(res["out"], errors="replace").read()
    accepted = res["ok"] and "TRACE-ACCEPTED" in text
    m = re.search(r"TRACE-REJECTED[^\n]*", text)
    res["reject"] = m.group(0) if m else (None if accepted else (res["error"] or "not accepted"))
    # a run that neither accepted nor rejected the trace (TLC crashed, ran out of memory, timed out) is a
    # failure of the tooling, never a statement about the code
    decided = accepted or ("TRACE-REJECTED" in text) or ("CONTRACT-VIOLATED" in text) or ("ALLOC-BOUND-VIOLATED" in text) or ("is violated" in text and "Invariant" in text)
    if not decided:
        tail = subprocess.run(["sh", "-c", "grep -v '^<<' '%s' | tail -25" % res["out"]], stdout=subprocess.PIPE, text=True).stdout
        raise ToolError("trace validation %s/%s neither accepted nor rejected the trace: %s\n%s" % (trace_module, cfg, res["error"], tail))
    return accepted, res

# ----------------------------------------------------------------------------- harness

class HarnessCrash(Exception):
    """The harness process was killed by a fatal signal (abort on allocation failure, stack overflow, ...) while the
    code under test was running: data about the code, not a tool error."""
    def __init__(self, rc, stderr):
        Exception.__init__(self, "harness died with rc=%s: %s" % (rc, stderr[-300:]))
        self.rc = rc
        self.stderr = stderr

FATAL_RCS = (-6, -11, -7, -4, 134, 139, 135, 132)

def run_harness(binary, args, tag, timeout=3000, crash_is_data=False):
    out = os.path.join(WORK, "h_%s.json" % tag)
    if os.path.exists(out):
        os.remove(out)
    cmd = ["timeout", str(timeout), binary] + [str(a) for a in args] + ["--out", out]
    t0 = time.time()
    r = subprocess.run(cmd, stdout=subprocess.PIPE, stderr=subprocess.PIPE, text=True)
    if r.stderr.strip():
        for l in r.stderr.strip().splitlines()[-3:]:
            log(l)
    if r.returncode == 124:
        raise ToolError("harness %s timed out" % " ".join(map(str, args)))
    if not os.path.exists(out) and crash_is_data and r.returncode in FATAL_RCS:
        raise HarnessCrash(r.returncode, r.stderr)
    if not os.path.exists(out):
        raise ToolError("harness %s produced no report (rc=%d): %s" % (" ".join(map(str, args)), r.returncode, r.stderr[-2000:]))
    j = json.load(open(out))
    j["wall_s"] = round(time.time() - t0, 1)
    return j

# ----------------------------------------------------------------------------- known findings

def load_known():
    p = os.path.join(VERIF, "known_findings.json")
    if not os.path.exists(p):
        return []
    return json.load(open(p)).get("findings", [])

def match_known(v, known):
    """A violation matches a known (status == 'known') finding iff every key of its
    `match` object is satisfied: desc_contains (substring of desc) and case_equals
    (dotted path -> value)."""
    for k in known:
        if k.get("status") != "known" or k.get("property") != v.get("property"):
            continue
        m = k.get("match", {})
        ok = True
        if "desc_contains" in m and m["desc_contains"] not in v.get("desc", ""):
            ok = False
        for path, val in m.get("case_equals", {}).items():
            cur = v.get("case", {})
            for part in path.split("."):
                cur = cur.get(part) if isinstance(cur, dict) else None
            if cur != val:
                ok = False
        if ok:
            return k
    return None

# ----------------------------------------------------------------------------- evidence / result

def run_tlaps(module, tag, timeout=300):
    """TLAPS proof of an unbounded version of what TLC checks on bounded instances.  Informational: the result goes
    into the evidence (notes.tlaps); it never decides a property about the CODE (the binding is the trace validation)."""
    import subprocess, shutil, re
    exe = shutil.which("tlapm")
    if not exe:
        return {"module": module, "status": "not run (tlapm not found)"}
    cache = os.path.join(WORK, "tlaps_" + tag)
    os.makedirs(cache, exist_ok=True)
    t0 = time.time()
    try:
        r = subprocess.run(["timeout", str(timeout), exe, "--threads", "2", "--cache-dir", cache, "-I", SPEC, os.path.join(SPEC, module + ".tla")],
                           stdout=subprocess.PIPE, stderr=subprocess.STDOUT, text=True, cwd=cache)
        m = re.search(r"All (\d+) obligations? proved", r.stdout)
        if m:
            return {"module": module, "status": "proved", "obligations": int(m.group(1)), "wall_s": round(time.time() - t0, 1)}
        tail = " ".join(r.stdout.strip().splitlines()[-3:])[:300]
        return {"module": module, "status": "not proved", "detail": tail, "wall_s": round(time.time() - t0, 1)}
    except Exception as e:
        return {"module": module, "status": "not run (%s)" % e}


class Result:
    def __init__(self, pid, tier, seed, level="model_checking"):
        self.pid, self.tier, self.seed, self.level = pid, tier, seed, level
        self.t0 = time.time()
        self.states = 0
        self.transitions = 0
        self.traces = 0
        self.replays = 0
        self.evaluations = 0
        self.distinct = 0
        self.samples = []
        self.violations = []
        self.drift = []
        self.tool_errors = []
        self.tlc_runs = []
        self.harness_runs = []
        self.assumptions = []
        self.notes = {}
        self.exhaustive_models = True

    def add_tlc(self, res, what):
        self.states += res["distinct"]
        self.transitions += res["generated"]
        self.tlc_runs.append({"module": res["module"], "cfg": res["cfg"], "what": what, "distinct_states": res["distinct"],
                              "states_generated": res["generated"], "depth": res["depth"], "wall_s": res["wall_s"],
                              "action_coverage": {a: g for a, (d, g) in res["actions"].items()}})

    def add_harness(self, rep, what, counts_as_traces=True):
        self.evaluations += rep["evaluations"]
        self.distinct += rep["distinct_nontrivial"]
        if counts_as_traces:
            self.replays += rep["evaluations"]
        for s in rep["samples"]:
            if len(self.samples) < 10:
                self.samples.append(s)
        self.violations.extend(rep["violations"])
        self.drift.extend(rep.get("drift", []))
        self.tool_errors.extend(rep["tool_errors"])
        self.harness_runs.append({"driver": rep["driver"], "what": what, "evaluations": rep["evaluations"],
                                  "distinct_nontrivial": rep["distinct_nontrivial"], "dontcare": rep.get("dontcare", 0),
                                  "counters": rep.get("counters", {}), "wall_s": rep.get("wall_s")})

    def finish(self, rule, trusted=None):
        """Write evidence, replays; print lines; return exit code."""
        ensure_dirs()
        known = load_known()
        new_v, known_hits = [], []
        for v in self.violations:
            v.setdefault("property", self.pid)
            k = match_known(v, known)
            if k:
                known_hits.append((k, v))
            else:
                new_v.append(v)
        replay_paths = []
        for v in new_v:
            body = json.dumps(v, sort_keys=True)
            h = hashlib.sha256(body.encode()).hexdigest()[:8]
            p = os.path.join(REPLAYS, "%s-%s.json" % (self.pid, h))
            with open(p, "w") as f:
                json.dump(v, f, indent=1)
            replay_paths.append(p)
        ev = {
            "property_id": self.pid,
            "tier": self.tier,
            "seed": self.seed,
            "level": self.level,
            "coverage": {
                "states": self.states,
                "transitions": self.transitions,
                "traces_validated_against_impl": self.traces + self.replays,
                "traces_accepted_by_tlc": self.traces,
                "behaviours_replayed_into_impl": self.replays,
                "samples": self.samples or [{"note": "no sample recorded"}],
                "evaluations": self.evaluations + self.transitions,
                "distinct_nontrivial": self.distinct,
                "rule": rule,
                "exhaustive": False,
                "tlc_runs": self.tlc_runs,
                "harness_runs": self.harness_runs,
                "drift": self.drift[:20],
                "known_findings_hit": [k["key"] for k, _ in known_hits],
                "notes": self.notes,
            },
            "assumptions": (trusted or []) + self.assumptions,
            "wall_s": round(time.time() - self.t0, 1),
            "violations": len(new_v),
        }
        with open(os.path.join(EVID, "%s.json" % self.pid), "w") as f:
            json.dump(ev, f, indent=1)
        for d in self.drift[:10]:
            print("DRIFT property=%s %s" % (self.pid, d.get("desc", "")))
        seen = set()
        for k, v in known_hits:
            if k["key"] not in seen:
                seen.add(k["key"])
                print("KNOWN-FINDING: property=%s %s" % (self.pid, k.get("what", k["key"])))
        if self.tool_errors:
            for t in self.tool_errors[:10]:
                print("TOOL-ERROR property=%s %s" % (self.pid, t[:1500]))
            return 2
        if new_v:
            for v, p in zip(new_v, replay_paths):
                print("DETAIL property=%s %s" % (self.pid, v.get("desc", "")[:400]))
                print("VIOLATION property=%s replay=%s" % (self.pid, p))
            return 1
        print("OK property=%s tier=%s states=%d transitions=%d replays=%d traces=%d wall=%.0fs" % (
            self.pid, self.tier, self.states, self.transitions, self.replays, self.traces, time.time() - self.t0))
        return 0

"""Per-property decision procedures (DESIGN.md section 5)."""
from vlib import *

TRUSTED_LZMA = [
    "TLC 1.8 / SANY and the TLA+ modules in /verif/spec (reviewed against the LZMA SDK specification)",
    "harness arithmetic kernel (generic 32-bit range encoder/decoder, ~150 lines) - cross-checked on every run: lzma-rs, the harness reference decoder and the TLC-predicted outputs must all agree",
    "Rust transcription of LzmaCoding.tla - compared with the TLC export on every model-sized program of the run (disagreement = tool error)",
]

def tq(tier, q, t):
    return q if tier == "quick" else t

def lzma_layer(res, binary, hooked, tier, seed, prop, walks):
    """Shared by C01/C08/C09/C10: LzmaDecoder.tla model check + replay of its behaviours."""
    cfg = tq(tier, "MC_LzmaDecoder_quick.cfg", "MC_LzmaDecoder_thorough.cfg")
    mc = run_tlc("MC_LzmaDecoder", cfg, "%s_dec" % prop, workers=tq(tier, 8, 14), timeout=tq(tier, 600, 7200))
    vac = vacuous_actions(mc)
    if vac:
        raise ToolError("vacuous model: actions never taken: %s" % vac)
    res.add_tlc(mc, "implementation-shaped decoder vs declarative twin: Refines, StateEq, NoFabrication, BufBound, SinkPrefix, Verdict, SizeRule, Terminates")
    rep = run_harness(binary, ["lzma", "--property", prop, "--seed", seed, "--decoder-export", mc["out"],
                               "--limit", tq(tier, 25000, 400000)] + walks, "%s_dec" % prop)
    res.add_harness(rep, "every exported behaviour of MC_LzmaDecoder selected for %s -> raw LzmaDecoder with dict_size = D, memlimit = M" % prop)
    return mc

def plan_C01(res, binary, hooked, tier, seed):
    cfg = tq(tier, "MC_LzmaCoding_quick.cfg", "MC_LzmaCoding_thorough.cfg")
    mc = run_tlc("MC_LzmaCoding", cfg, "C01_cod", workers=tq(tier, 8, 14), timeout=tq(tier, 600, 7200))
    res.add_tlc(mc, "symbol coding: IndexBounds, StateRange, AutomatonOK over all programs; export of (program, decisions, output)")
    rep = run_harness(binary, ["lzma", "--property", "C01", "--seed", seed, "--coding-export", mc["out"],
                               "--limit", tq(tier, 9000, 1000000),
                               "--walks", tq(tier, 60, 1500), "--walk-syms", tq(tier, 400, 1500)], "C01_cod")
    res.add_harness(rep, "TLC-exported programs range-coded from TLC's own decision lists -> one-shot / raw / Stream; long walks of the transcribed spec")
    lzma_layer(res, binary, hooked, tier, seed, "C01", [])
    return ("cases = behaviours of the bounded TLA+ models (all symbol programs up to the bound x props x dictionary sizes) plus seeded long walks; "
            "distinct = distinct (input bytes, api, options); non-trivial = at least one symbol decoded or an error expected"), TRUSTED_LZMA

def plan_C08(res, binary, hooked, tier, seed):
    lzma_layer(res, binary, hooked, tier, seed, "C08", [])
    return ("behaviours of MC_LzmaDecoder ending by size / marker / overshoot / truncation, replayed on the raw decoder; "
            "distinct = distinct (bytes, options)"), TRUSTED_LZMA

def plan_C09(res, binary, hooked, tier, seed):
    lzma_layer(res, binary, hooked, tier, seed, "C09", [])
    return ("behaviours of MC_LzmaDecoder whose last symbol is an out-of-window copy (distance > produced, > dictionary, huge; also via matched literal), at every position relative to the wrap; "
            "distinct = distinct (bytes, dict)"), TRUSTED_LZMA

def plan_C10(res, binary, hooked, tier, seed):
    lzma_layer(res, binary, hooked, tier, seed, "C10", [])
    return ("behaviours of MC_LzmaDecoder under every memory limit of the model (0..D and none); distinct = distinct (bytes, dict, limit)"), TRUSTED_LZMA

PLANS = {"C01": plan_C01, "C08": plan_C08, "C09": plan_C09, "C10": plan_C10}

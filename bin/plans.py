"""Per-property decision procedures (DESIGN.md section 5)."""
from vlib import *
import os, json

TRUSTED_LZMA = [
    "TLC 1.8 / SANY and the TLA+ modules in /verif/spec (reviewed against the LZMA SDK specification)",
    "harness arithmetic kernel (generic 32-bit range encoder/decoder, ~150 lines) - cross-checked on every run: lzma-rs, the harness reference decoder and the TLC-predicted outputs must all agree",
    "Rust transcription of LzmaCoding.tla - compared with the TLC export on every model-sized program of the run (disagreement = tool error)",
]

def tq(tier, q, t):
    return q if tier == "quick" else t

def lzma_layer(res, binary, hooked, tier, seed, prop, walks):
    """Shared by C01/C08/C09/C10: LzmaDecoder.tla model check + replay of its behaviours."""
    cfg = tq(tier, "MC_LzmaDecoder_quick.cfg", "MC_LzmaDecoder_thorough.cfg")
    mc = run_tlc("MC_LzmaDecoder", cfg, "%s_dec" % prop, workers=tq(tier, 8, 14), timeout=tq(tier, 600, 7200))
    vac = vacuous_actions(mc)
    if vac:
        raise ToolError("vacuous model: actions never taken: %s" % vac)
    res.add_tlc(mc, "implementation-shaped decoder vs declarative twin: Refines, StateEq, NoFabrication, BufBound, SinkPrefix, Verdict, SizeRule, Terminates")
    rep = run_harness(binary, ["lzma", "--property", prop, "--seed", seed, "--decoder-export", mc["out"],
                               "--limit", tq(tier, 25000, 400000)] + walks, "%s_dec" % prop)
    res.add_harness(rep, "every exported behaviour of MC_LzmaDecoder selected for %s -> raw LzmaDecoder with dict_size = D, memlimit = M" % prop)
    return mc

def symbol_traces(res, binary, hooked, tier, seed, prop):
    """Hooked symbol events of real decodes (repository test files = real liblzma output, plus generated streams)
    validated against the format automaton by Trace_Lzma."""
    if not hooked:
        res.notes["symbol_trace_validation"] = "skipped (hooks not available in this build)"
        return
    trace = os.path.join(WORK, "trace_sym_%s.ndjson" % prop)
    rep = run_harness(binary, ["symtrace", "--property", prop, "--seed", seed, "--files", os.path.join(REPO, "tests", "files"),
                               "--cap", tq(tier, 20000, 400000), "--trace", trace], "%s_sym" % prop)
    res.add_harness(rep, "symbol-commit events recorded by the hooks while decoding tests/files/*.lzma, *.xz and generated LZMA / LZMA2 streams", counts_as_traces=False)
    ok, info = validate_trace("Trace_Lzma", "Trace_Lzma.cfg", trace, "%s_symtrace" % prop, timeout=tq(tier, 600, 3600))
    res.add_tlc(info, "trace validation: every committed symbol is a step of the format automaton (state tables, rep LRU, copy validity, output length; LZMA2 reset classes)")
    if ok:
        res.traces += rep["evaluations"]
    else:
        res.drift.append({"desc": "Trace_Lzma rejected a recorded symbol sequence: %s" % (info.get("reject") or info.get("error") or "")[:500]})

def plan_C01(res, binary, hooked, tier, seed):
    cfg = tq(tier, "MC_LzmaCoding_quick.cfg", "MC_LzmaCoding_thorough.cfg")
    mc = run_tlc("MC_LzmaCoding", cfg, "C01_cod", workers=tq(tier, 8, 14), timeout=tq(tier, 600, 7200))
    res.add_tlc(mc, "symbol coding: IndexBounds, StateRange, AutomatonOK over all programs; export of (program, decisions, output)")
    rep = run_harness(binary, ["lzma", "--property", "C01", "--seed", seed, "--coding-export", mc["out"],
                               "--limit", tq(tier, 9000, 1000000),
                               "--walks", tq(tier, 60, 5000), "--walk-syms", tq(tier, 400, 1500)], "C01_cod")
    res.add_harness(rep, "TLC-exported programs range-coded from TLC's own decision lists -> one-shot / raw / Stream; long walks of the transcribed spec")
    lzma_layer(res, binary, hooked, tier, seed, "C01", [])
    symbol_traces(res, binary, hooked, tier, seed, "C01")
    return ("cases = behaviours of the bounded TLA+ models (all symbol programs up to the bound x props x dictionary sizes) plus seeded long walks; "
            "distinct = distinct (input bytes, api, options); non-trivial = at least one symbol decoded or an error expected"), TRUSTED_LZMA

def header_layer(res, binary, tier, seed, prop):
    """LzmaHeader.tla: every props byte x dictionary class x size-field class x option x truncation, model-checked
    (props bijection, override / clamp rules) and replayed on the one-shot and streaming decoders."""
    mc = run_tlc("MC_LzmaHeader", "MC_LzmaHeader.cfg", "%s_hdr" % prop, workers=8, timeout=600)
    res.add_tlc(mc, ".lzma header reading: PropsBijection, PropsRejected, HeaderBytes (13/13/5), Override, Clamp, ShortIsShort; export of every header case with TLC's reading")
    rep = run_harness(binary, ["lzma", "--property", prop, "--seed", seed, "--header-export", mc["out"]], "%s_hdr" % prop)
    res.add_harness(rep, "every header case of MC_LzmaHeader instantiated with a payload coded under TLC's lc/lp/pb -> one-shot and Stream (one cut inside the header)")

def entry_points_layer(res, binary, tier, seed, prop):
    """EntryPoints.tla: the end / size rules stated declaratively over classes (SizeExact, OverrideRule, MarkerEnds,
    TrailIgnored, OptionsAgree, Reach as assumptions of the model), every case exported and replayed through all
    entry points (plain, oneshot, building blocks, Stream in one write, Stream bytewise)."""
    mc = run_tlc("MC_EntryPoints", "MC_EntryPoints.cfg", "%s_ep" % prop, workers=2, timeout=300, coverage=False)
    res.add_tlc(mc, "end / size rules over classes of inputs: SizeExact, OverrideRule, MarkerEnds, TrailIgnored, OptionsAgree, Reach; export of every case with its verdict class and the entry points it applies to")
    rep = run_harness(binary, ["lzma", "--property", prop, "--seed", seed, "--entry-points-export", mc["out"], "--ep-rounds", tq(tier, 1, 40)], "%s_ep" % prop)
    res.add_harness(rep, "every case of MC_EntryPoints x payloads ending in a copy (3 in quick, 42 in thorough; all props) -> lzma_decompress, lzma_decompress_with_options, LzmaParams::read_header + LzmaDecoder, Stream (one write / bytewise): verdict, bytes, input consumed")

def plan_C08(res, binary, hooked, tier, seed):
    lzma_layer(res, binary, hooked, tier, seed, "C08", ["--options-matrix", tq(tier, 24, 2000)])
    header_layer(res, binary, tier, seed, "C08")
    entry_points_layer(res, binary, tier, seed, "C08")
    return ("behaviours of MC_LzmaDecoder ending by size / marker / overshoot / truncation, replayed on the raw decoder; plus, on the one-shot and streaming APIs, "
            "programs x {ReadFromHeader, ReadHeaderButUseProvided(None|n), UseProvided(None|n)} x header size field {all-ones, true, true+1, true-1, 0, 2^40} x marker present/absent x n in {true, +1, -1, 0} "
            "with the bytes consumed (13/13/5 header bytes + payload) compared on success; distinct = distinct (bytes, options)"), TRUSTED_LZMA

def plan_C09(res, binary, hooked, tier, seed):
    lzma_layer(res, binary, hooked, tier, seed, "C09", ["--fab-probes", tq(tier, 90, 12000)])
    lzma2_layer(res, binary, hooked, tier, seed, "C09", 0)
    return ("behaviours of MC_LzmaDecoder whose last symbol is an out-of-window copy (distance > produced, > dictionary, huge; also via matched literal), at every position relative to the wrap; "
            "distinct = distinct (bytes, dict)"), TRUSTED_LZMA

def plan_C10(res, binary, hooked, tier, seed):
    lzma_layer(res, binary, hooked, tier, seed, "C10", ["--memlimit-matrix", tq(tier, 20, 1200)])
    return ("behaviours of MC_LzmaDecoder under every memory limit of the model (0..D and none) on the raw decoder; plus real-size streams (output below and above the dictionary) under limits "
            "{0, need-1, need, need+1, dict-1, dict, 2^32-1, none} on the one-shot, streaming and raw APIs with the peak heap observed by the counting allocator; distinct = distinct (bytes, dict, limit, api)"), TRUSTED_LZMA

TRUSTED_STREAM = [
    "TLC 1.8 / SANY; Stream.tla (decoder loop of process_mode transcribed branch by branch)",
    "stream shapes (bytes consumed / produced per symbol, error kinds, clean-coder flags) are computed by the harness reference decoder; they are validated on every run because each recorded execution of the real Stream (return values, phase, tmp fill, partial-buffer fill, committed symbols after every call) must be accepted by TLC against the specification instantiated with that shape",
    "the one-shot decoder of lzma-rs is the oracle of C05 by the property's own wording",
]

def implementation_constants(binary):
    import subprocess, json as _j
    r = subprocess.run([binary, "constants"], stdout=subprocess.PIPE, text=True)
    try:
        c = _j.loads(r.stdout.strip() or "{}")
    except Exception:
        c = {}
    return c

def stream_models(res, binary, hooked, tier, prop):
    """MC_Stream (scaled, all shapes x all chunkings) and MC_StreamReal (constants read from the code)."""
    mc = run_tlc("MC_Stream", tq(tier, "MC_Stream_quick.cfg", "MC_Stream_thorough.cfg"), "%s_mcs" % prop,
                 workers=tq(tier, 12, 14), timeout=tq(tier, 900, 10800), coverage=False)
    res.add_tlc(mc, "all stream shapes of the bounded family x all compositions into write calls x finish anywhere: EqOneShot, NoZeroProgress, Lag, Progress, BufBounds, Latch, Monotone")
    c = implementation_constants(binary)
    if c.get("MaxReq") is None:
        res.notes["real_constants"] = "hooks unavailable: MC_StreamReal run with the documented constants (20/18/5)"
        c = {"MaxReq": 20, "TmpMax": 18, "Pre": 5}
    else:
        res.notes["real_constants"] = c
    cfgp = os.path.join(WORK, "MC_StreamReal_%s.cfg" % prop)
    with open(cfgp, "w") as f:
        f.write("SPECIFICATION Spec\nCONSTANTS\n  Pre = %d\n  TmpMax = %d\n  MaxReq = %d\n  MaxCost = 20\n"
                "INVARIANTS EqOneShot NoZeroProgress Lag Progress BufBounds\nPROPERTIES Latch Monotone\nCHECK_DEADLOCK FALSE\n"
                % (c["Pre"], c["TmpMax"], c["MaxReq"]))
    mr = run_tlc("MC_StreamReal", cfgp, "%s_mcr" % prop, workers=8, timeout=1200, coverage=False, allow_violation=True)
    if not mr["ok"]:
        if mr["rc"] == 124 or "violated" not in (mr["error"] or ""):
            raise ToolError("MC_StreamReal failed: %s" % mr["error"])
        # Stream.tla is a transcription of the CURRENT algorithm; with other constants it may no longer describe the
        # implementation at all, and no execution of the real code is involved: shape tier.  (A real decoder whose
        # buffers are too small for a 20-byte symbol is caught by the executions with constructed expensive symbols.)
        res.drift.append({"desc": "Stream.tla instantiated with the constants read from the implementation %s violates an invariant (%s): model-level counterexample" % (json.dumps(c), mr["error"])})
    res.add_tlc(mr, "Stream at the real constants read from the implementation, symbols costing up to the format bound of 20 bytes, every chunking")

def subprocess_tail(path):
    import subprocess
    return subprocess.run(["sh", "-c", "grep -v '^  ' '%s' | tail -120" % path], stdout=subprocess.PIPE, text=True).stdout

def stream_traces(res, binary, hooked, tier, seed, prop, mode, streams, syms):
    trace = os.path.join(WORK, "trace_%s.ndjson" % prop)
    if os.path.exists(trace):
        os.remove(trace)
    rep = run_harness(binary, ["stream", "--mode", mode, "--property", prop, "--seed", seed, "--streams", streams,
                               "--syms", syms, "--trace", trace], "%s_stream" % prop)
    res.add_harness(rep, "seeded drivers on the real Stream (%s): valid / truncated / bit-flipped / trailing-bytes / header-corrupted streams x chunkings (random, single bytes, header boundaries, inside the most expensive symbols, with empty writes), all decode options" % mode,
                    counts_as_traces=False)
    res.evaluations += 0
    if hooked and os.path.exists(trace):
        n_events = sum(1 for _ in open(trace))
        ok, info = validate_trace("Trace_Stream", "Trace_Stream.cfg", trace, "%s_trace" % prop, timeout=tq(tier, 900, 7200))
        res.add_tlc(info, "trace validation of %d recorded events" % n_events)
        runs = rep["counters"].get("traced_runs", 0)
        if ok:
            res.traces += runs
        else:
            # shape-tier only: the contract comparison above decides violations
            res.drift.append({"desc": "Trace_Stream rejected the recorded execution: %s" % (info.get("reject") or "")[:600]})
            res.notes["trace_rejected"] = True
    else:
        res.notes["trace_validation"] = "skipped (hooks not available in this build)"

def plan_C05(res, binary, hooked, tier, seed):
    stream_models(res, binary, hooked, tier, "C05")
    stream_traces(res, binary, hooked, tier, seed, "C05", "c05", tq(tier, 45, 1200), tq(tier, 60, 150))
    # every case of EntryPoints.tla (option x header size class x marker x trailing bytes) through Stream in one write
    # and bytewise, compared with the one-shot decoder on the same bytes
    entry_points_layer(res, binary, tier, seed, "C05")
    return ("model: every shape x chunking of the bounded families; implementation: seeded (stream, mutation, chunking) runs, each compared with the one-shot decoder on the same bytes and validated event-by-event by TLC; "
            "distinct = distinct (bytes, cuts, option)"), TRUSTED_STREAM

def plan_C15(res, binary, hooked, tier, seed):
    stream_models(res, binary, hooked, tier, "C15")
    stream_traces(res, binary, hooked, tier, seed, "C15", "c15", tq(tier, 60, 1500), tq(tier, 80, 200))
    return ("valid streams x sampled prefixes (incl. all boundary lengths around header and preamble) x random chunkings with allow_incomplete; sink and finish() output must be prefixes of the full output and contain every symbol that ends 64 bytes before the end of the prefix; "
            "distinct = distinct (prefix bytes, cuts)"), TRUSTED_STREAM

def plan_C16(res, binary, hooked, tier, seed):
    stream_models(res, binary, hooked, tier, "C16")
    stream_traces(res, binary, hooked, tier, seed, "C16", "c16", tq(tier, 80, 2000), tq(tier, 60, 150))
    return ("call sequences write*/flush*/finish that keep calling after the first failure or after the declared size was reached; "
            "distinct = distinct (bytes, cuts, option)"), TRUSTED_STREAM

TRUSTED_XZ = [
    "TLC 1.8 / SANY; Xz.tla (field-level transcription of decode/xz.rs next to the declarative reading of xz-file-format 1.1.0)",
    "harness .xz serialiser with bitwise CRC32/CRC64 (every well-formed file it writes must be accepted by lzma-rs and decode to the library contents, which is checked on every run; the payload library sizes are cross-checked against LibDef in MC_Xz.tla)",
]

def xz_layer(res, binary, hooked, tier, seed, prop, extra_args, limit):
    mc = run_tlc("MC_Xz", tq(tier, "MC_Xz_quick.cfg", "MC_Xz_thorough.cfg"), "%s_xz" % prop, workers=tq(tier, 12, 14),
                 timeout=tq(tier, 900, 10800), coverage=False)
    res.add_tlc(mc, "every file of 0..2 blocks over the payload library x check ids x size-field presence x header sizes, well-formed or with one mutated field: PadLemma, AcceptsWellFormed, AcceptImpliesIntegrity, UnsupportedRefused, SinkOnlyVerified, MutationsAreCaught, NoWrap")
    rep = run_harness(binary, ["xz", "--property", prop, "--seed", seed, "--export", mc["out"], "--limit", limit] + extra_args, "%s_xz" % prop)
    res.add_harness(rep, "every exported abstract file selected for %s serialised with harness CRCs -> xz_decompress; verdict = model verdict, output = concatenation of block contents" % prop)

def xz_traces(res, binary, hooked, tier, seed, prop):
    if not hooked:
        res.notes["container_trace_validation"] = "skipped (hooks not available in this build)"
        return
    trace = os.path.join(WORK, "trace_xz_%s.ndjson" % prop)
    rep = run_harness(binary, ["xztrace", "--property", prop, "--seed", seed, "--files", os.path.join(REPO, "tests", "files"), "--trace", trace], "%s_xzt" % prop)
    res.add_harness(rep, "container events recorded by the hooks while decoding tests/files/*.xz and harness-serialised files (0..40 blocks, all check types, header sizes up to 1024)", counts_as_traces=False)
    ok, info = validate_trace("Trace_Xz", "Trace_Xz.cfg", trace, "%s_xztrace" % prop, timeout=600)
    res.add_tlc(info, "trace validation: per-block header size / byte count / padding / declared sizes and the index size measured by the code equal the declarative formulas of Xz.tla")
    if ok:
        res.traces += rep["evaluations"]
    else:
        res.drift.append({"desc": "Trace_Xz rejected the recorded container events: %s" % (info.get("reject") or info.get("error") or "")[:500]})

def plan_C03(res, binary, hooked, tier, seed):
    xz_layer(res, binary, hooked, tier, seed, "C03", ["--big-valid"], tq(tier, 20000, 2000000))
    xz_traces(res, binary, hooked, tier, seed, "C03")
    return ("all well-formed supported files of the bounded model (block count 0..2, check None/CRC32/CRC64, size fields on/off, two header sizes, payload lengths mod 4 = 0..3, 1- and 2-byte varints); distinct = distinct file bytes"), TRUSTED_XZ

def plan_C06(res, binary, hooked, tier, seed):
    xz_layer(res, binary, hooked, tier, seed, "C06", ["--flip-files", tq(tier, 6, 60)], tq(tier, 60000, 3000000))
    return ("all single-field mutations (CRCs repaired) of all files of the bounded model + every single-bit flip and every truncation of small CRC32/CRC64 files; distinct = distinct file bytes"), TRUSTED_XZ

def plan_C18(res, binary, hooked, tier, seed):
    xz_layer(res, binary, hooked, tier, seed, "C18", [], tq(tier, 60000, 3000000))
    return ("files of the bounded model using an unsupported feature: check ids outside {None, CRC32, CRC64}, other filter ids, two filters, reserved bits in stream/block flags, trailing bytes / stream padding; distinct = distinct file bytes"), TRUSTED_XZ

TRUSTED_L2 = TRUSTED_LZMA + ["harness LZMA2 serialiser and byte-level reference LZMA2 decoder (format rules of Lzma2.tla evaluated on bytes); TLC's predicted verdict/output, the reference decoder and lzma-rs must agree on every replayed behaviour"]

def lzma2_layer(res, binary, hooked, tier, seed, prop, walks):
    mc = run_tlc("MC_Lzma2", tq(tier, "MC_Lzma2_quick.cfg", "MC_Lzma2_thorough.cfg"), "%s_l2" % prop, workers=tq(tier, 12, 14), timeout=tq(tier, 900, 10800))
    vac = vacuous_actions(mc, ignore=("Next",))
    if vac:
        raise ToolError("vacuous model: actions never taken: %s" % vac)
    res.add_tlc(mc, "chunk layer vs declarative chunk semantics: Refines, Verdict, SinkPrefix, FramingRejected over all chunk sequences of the bounded model (every reset class after every chunk kind, matches into earlier chunks, one framing fault)")
    extra = ["--framing-extremes", "--fault-walks", tq(tier, 400, 60000)] if prop == "C17" else (["--dict-reset-probes"] if prop == "C09" else [])
    rep = run_harness(binary, ["lzma2", "--property", prop, "--seed", seed, "--export", mc["out"], "--limit", tq(tier, 60000, 3000000), "--walks", walks] + extra, "%s_l2" % prop)
    res.add_harness(rep, "every exported chunk sequence selected for %s serialised by the spec-driven LZMA2 encoder -> lzma2_decompress / raw Lzma2Decoder / one-block .xz" % prop)
    if tier == "thorough":
        # the thorough bound trades program length for chunk count (3 chunks x 1 symbol); also run the quick bound (2 x 2)
        mc2 = run_tlc("MC_Lzma2", "MC_Lzma2_quick.cfg", "%s_l2b" % prop, workers=14, timeout=3600)
        res.add_tlc(mc2, "same model at 2 chunks x 2 symbols")
        rep2 = run_harness(binary, ["lzma2", "--property", prop, "--seed", seed, "--export", mc2["out"], "--limit", 3000000], "%s_l2b" % prop)
        res.add_harness(rep2, "behaviours of the 2 x 2 bound")

def plan_C02(res, binary, hooked, tier, seed):
    lzma2_layer(res, binary, hooked, tier, seed, "C02", tq(tier, 60, 8000))
    symbol_traces(res, binary, hooked, tier, seed, "C02")
    return ("all well-formed chunk sequences of the bounded model + seeded long chunk sequences (1..6 chunks, programs up to 6000 symbols, 1-byte and 64 KiB uncompressed chunks, property changes keeping and changing lc+lp, every reset class); distinct = distinct (stream bytes, api)"), TRUSTED_L2

def plan_C17(res, binary, hooked, tier, seed):
    lzma2_layer(res, binary, hooked, tier, seed, "C17", 0)
    return ("all chunk sequences of the bounded model ending in one framing fault, plus seeded long well-formed chunk sequences (aged probabilities, carried windows, 1..6 chunks) with one framing fault injected at a random chunk (control byte, props byte, declared sizes +-1..65536, cut, end byte, lowered reset class, stray bytes): control 0x03/0x7F, props >= 225, lc+lp > 4, declared packed size too small / too large, declared unpacked size larger / smaller (cut inside a match / between symbols), short uncompressed chunk, missing end byte; distinct = distinct (stream bytes, api)"), TRUSTED_L2

def plan_C12(res, binary, hooked, tier, seed):
    mc = run_tlc("MC_IoFaults", "MC_IoFaults.cfg", "C12_mc", workers=4, timeout=300)
    res.add_tlc(mc, "the I/O contract (ErrIffFault, PrefixAlways, CompleteOnOk, FlushOnOk, NoCallAfterFailure) against a reference write_all/flush pipeline under every fault script (k-th call fails, Ok(0), arbitrary short writes, failing flush)")
    trace = os.path.join(WORK, "trace_C12.ndjson")
    rep = run_harness(binary, ["io", "--property", "C12", "--seed", seed, "--inputs", tq(tier, 4, 120), "--trace", trace, "--export", mc["out"]], "C12_io")
    res.add_harness(rep, "for every entry point (3 decoders, raw LZMA2, Stream, 5 encoder variants) and every sample input: fail each sink write (Err and Ok(0)), each flush, each source call; short-write patterns with fragmented sources; every finished behaviour of MC_IoFaults replayed as a positional script of sink answers (short writes followed by a failure, Ok(0), failing flush)", counts_as_traces=False)
    ok, info = validate_trace("Trace_Io", "Trace_Io_shape.cfg", trace, "C12_trace", timeout=tq(tier, 900, 7200))
    res.add_tlc(info, "trace validation of the recorded sink/source call logs (Contract as invariant after every call)")
    text = open(info["out"], errors="replace").read()
    if ok:
        res.traces += rep["counters"].get("traced_runs", 0)
    elif "CONTRACT-VIOLATED" in text:
        import re as _re
        m = _re.search(r"CONTRACT-VIOLATED at line[^>]*>>", text, _re.S)
        res.violations.append({"property": "C12", "desc": "the recorded call log violates the I/O contract of IoFaults.tla: " + (m.group(0)[:500] if m else ""),
                               "case": {"kind": "tlc-trace", "trace_file": trace}})
    elif "ShapeAt" in text or "NoCallAfterFailure" in text:
        res.drift.append({"desc": "calls were made after the first failed call (shape tier)"})
    else:
        res.drift.append({"desc": "Trace_Io rejected the call log: %s" % (info.get("reject") or "")[:400]})
    return ("per (entry point, input): fault-free call counts, then every fault position k for sink writes (Err and Ok(0)), flushes and source calls, plus short-write patterns; distinct = distinct (api, input, script)"), [
        "TLC 1.8; IoFaults.tla", "harness sink/source wrappers (compare every offered buffer with the fault-free output, which for decoders is cross-checked against the specification's output)"]

def reader_models(res, tier, tag):
    mc = run_tlc("MC_Reader", "MC_Reader.cfg", "%s_rd" % tag, workers=8, timeout=600)
    res.add_tlc(mc, "BufRead source with arbitrary fill_buf fragments under the decoders' helper loops (Take + zero-padding scan, read_exact runs, is_eof): FragIndependent (verdict and bytes consumed are a function of the bytes), Protocol, Terminates")

def plan_C13(res, binary, hooked, tier, seed):
    reader_models(res, tier, "C13")
    trace = os.path.join(WORK, "trace_C13.ndjson")
    rep = run_harness(binary, ["reader", "--mode", "c13", "--property", "C13", "--seed", seed, "--inputs", tq(tier, 10, 6000), "--trace", trace], "C13_rd")
    res.add_harness(rep, "valid, truncated, bit-flipped and zero-padded inputs of all three formats through Cursor, scripted sources (1-byte, 2-byte, mixed, random fragments) and BufReader capacities 1,2,3,7,64,random; verdict / output / consumed compared with the all-at-once run", counts_as_traces=False)
    ok, info = validate_trace("Trace_Reader", "Trace_Reader.cfg", trace, "C13_trace", timeout=tq(tier, 900, 7200))
    res.add_tlc(info, "trace validation of the BufRead protocol log (fill/consume/read) of the scripted source")
    if ok:
        res.traces += rep["evaluations"]
    else:
        res.violations.append({"property": "C13", "desc": "the decoders' use of the BufRead source violates the protocol of Trace_Reader.tla (consume beyond what fill_buf exposed / position mismatch): %s" % (info.get("reject") or "")[:400], "case": {"kind": "tlc-trace", "trace_file": trace}})
    return ("inputs x reader kinds; distinct = distinct (bytes, format, reader, fragment pattern)"), ["TLC 1.8; Reader.tla", "the all-at-once run of lzma-rs itself is the reference, as the property states"]

def plan_C11(res, binary, hooked, tier, seed):
    reader_models(res, tier, "C11")
    range_coder_small(res, binary, tier, seed, "C11")
    rep = run_harness(binary, ["reader", "--mode", "c11", "--property", "C11", "--seed", seed, "--inputs", tq(tier, 24, 1500)], "C11_rd")
    res.add_harness(rep, "size-bounded LZMA payloads (13- and 5-byte headers) and LZMA2 streams followed by 0/1/5/64 arbitrary bytes, read through slice, Cursor, scripted sources and BufReader(1/5/4096): must succeed with unchanged output and leave the reader exactly at the end of the payload (position predicted by the reference decoder's lock-step count); marker-terminated LZMA and XZ with trailing bytes must fail")
    lzma_layer(res, binary, hooked, tier, seed, "C11", [])
    entry_points_layer(res, binary, tier, seed, "C11")
    lzma2_layer(res, binary, hooked, tier, seed, "C11", tq(tier, 20, 400))
    return ("payloads x trailing bytes x reader kinds, plus every successful behaviour of MC_LzmaDecoder / MC_Lzma2 replayed with the consumed-bytes comparison switched on; distinct = distinct (bytes, reader)"), TRUSTED_L2 + ["Reader.tla for the helper loops; the byte position of the end of a payload comes from the harness range coder kernel (decoder consumption = 5 + number of normalisations = encoder emission), which is arithmetic and outside TLA+ (DESIGN.md section 8)"]

def plan_C14(res, binary, hooked, tier, seed):
    mc = run_tlc("MC_RawReuse", "MC_RawReuse.cfg", "C14_mc", workers=8, timeout=600, coverage=False)
    res.add_tlc(mc, "all histories of decompress (leaving any used state) / reset(keep | size) up to 4 operations on both raw decoders: ResetIsFresh; first chunk of a well-formed LZMA2 stream on a used object: WellFormedStartIsFresh")
    # the same two invariants for ANY number of operations ("for any number of reuse cycles"): TLAPS, inductive invariant
    tl = run_tlaps("RawReuse_proof", "C14")
    res.notes["tlaps"] = dict(tl, what="SpecU => [](ResetIsFresh /\\ WellFormedStartIsFresh) with no bound on the number of operations (MC_RawReuse checks depth 4)")
    log("TLAPS RawReuse_proof: %s" % tl.get("status"))
    trace = os.path.join(WORK, "trace_C14.ndjson")
    rep = run_harness(binary, ["reuse", "--property", "C14", "--seed", seed, "--histories", tq(tier, 80, 150000), "--trace", trace], "C14_ru")
    res.add_harness(rep, "seeded histories on real LzmaDecoder / Lzma2Decoder objects (valid, corrupt, truncated, property-changing and state-leaning streams; reset(None), reset(Some(None)), reset(Some(Some(n)))): after every reset the next decompress is also run on a new object and must agree", counts_as_traces=False)
    if hooked and os.path.exists(trace):
        ok, info = validate_trace("Trace_RawReuse", "Trace_RawReuse.cfg", trace, "C14_trace", timeout=tq(tier, 600, 3600))
        res.add_tlc(info, "trace validation of the projection logged after every call (after reset it must equal Fresh)")
        if ok:
            res.traces += rep["evaluations"]
        else:
            res.drift.append({"desc": "Trace_RawReuse rejected the recorded projection: %s" % (info.get("reject") or info.get("error") or "")[:500]})
    return ("operation histories x stream pool; an evaluation = one decompress-after-reset compared with a new decoder; distinct = distinct histories"), [
        "TLC 1.8; RawReuse.tla", "the freshly constructed decoder of lzma-rs is the oracle, as the property states; the projection hook (cfg lzma_rs_verif) only feeds the shape tier"]

def range_coder_small(res, binary, tier, seed, prop):
    """RangeCoderSmall.tla: round trip, lock-step and clean end of the parametric range coder at small parameters;
    the generic harness kernel must reproduce TLC's streams digit for digit and equal the fixed kernel at (32,8,11,5)."""
    mc = run_tlc("MC_RangeCoderSmall", "MC_RangeCoderSmall.cfg", "%s_rc" % prop, workers=8, timeout=600, coverage=False)
    res.add_tlc(mc, "parametric range coder (W=9, B=3, P=4, M=2): RoundTrip, LockStep, CleanEnd, ProbRange, RangeOK over all 12-bit strings on 2 adaptive contexts (carries into runs of pending all-ones digits are reachable)")
    rep = run_harness(binary, ["rcsmall", "--property", prop, "--seed", seed, "--export", mc["out"]], "%s_rc" % prop)
    res.add_harness(rep, "generic range coder of the harness vs every stream exported by TLC (small parameters) and vs the fixed 32-bit kernel (real parameters, 200 random context/bit sequences up to 40 000 bits with strong biases)")

def plan_C04(res, binary, hooked, tier, seed):
    range_coder_small(res, binary, tier, seed, "C04")
    mc = run_tlc("MC_Encoder", "MC_Encoder.cfg", "C04_mc", workers=8, timeout=900, coverage=False)
    res.add_tlc(mc, "abstract encoders vs format semantics for all inputs of length 0..7 (chunk limit scaled to 3) x 3 options x all source fragmentations: RoundTripLzma + LitOnly, RoundTripLzma2, XzArithmetic, ChunkCount")
    trace = os.path.join(WORK, "trace_C04.ndjson")
    args = ["enc", "--property", "C04", "--seed", seed, "--trace", trace]
    if tier == "thorough":
        args.append("--thorough")
    rep = run_harness(binary, args, "C04_enc", timeout=7200)
    res.add_harness(rep, "real outputs of lzma_compress (3 options), lzma2_compress, xz_compress for lengths 0,1,2,3,17,100,1000,65535,65536,65537,131072,131073 (thorough: more, up to 1 MiB) x 7 content families (zeros, 0xFF plateaus, random, alternating runs, ramp, saturate-then-flip, mostly-0xFF) x source fragmentations (all at once, 1-byte, 64 KiB, random): decoded by lzma-rs (one-shot + Stream), by the harness reference decoder, and by liblzma (xz CLI) when present", counts_as_traces=False)
    ok, info = validate_trace("Trace_Encoder", "Trace_Encoder.cfg", trace, "C04_trace", timeout=tq(tier, 900, 7200))
    res.add_tlc(info, "trace validation: header fields, symbol list, chunk layout and container arithmetic parsed from the real outputs vs Encoder.tla")
    if ok:
        res.traces += rep["counters"].get("trace_events", 0)
    else:
        # C04 fixes what the output DECODES to, not which symbols, parameters, chunk boundaries or check type the
        # encoders use: a structure other than the one Encoder.tla describes is shape-tier information
        res.drift.append({"desc": "an encoder output does not have the structure Encoder.tla describes (header parameters / literal-only symbols / one chunk per read / container layout): %s" % (info.get("reject") or info.get("error") or "")[:500]})
    return ("inputs x options x fragmentations; distinct = distinct (length, content family, fragmentation, option, encoder)"), TRUSTED_LZMA + [
        "the carry propagation of the range ENCODER is 33-bit arithmetic outside TLA+: decided by differential round trip through three decoders (lzma-rs, harness reference decoder, liblzma when present)"]

def plan_C07(res, binary, hooked, tier, seed):
    from concurrent.futures import ThreadPoolExecutor
    mc = run_tlc("MC_LzmaCoding", "MC_LzmaCoding_allprops.cfg", "C07_idx", workers=8, timeout=900, coverage=False)
    res.add_tlc(mc, "IndexBounds: every probability index of every symbol kind stays inside the tables lzma-rs allocates, for all 225 lc/lp/pb settings")
    mc2 = run_tlc("MC_LzmaDecoder", "MC_LzmaDecoder_quick.cfg", "C07_dec", workers=8, timeout=900, coverage=False)
    res.add_tlc(mc2, "window arithmetic: CursorRange, BufBound, NoFabrication, Terminates (liveness)")
    nproc = tq(tier, 8, 14)
    per = tq(tier, 25000, 1500000)
    crashes = []
    def job(i):
        # a case that takes the whole process down (allocation failure aborts, stack overflow) is found through the
        # journal the harness keeps, recorded as a violation, and the segment is resumed after it
        trace = os.path.join(WORK, "trace_C07_%d.ndjson" % i)
        journal = os.path.join(WORK, "journal_C07_%d.bin" % i)
        start, end = i * per, (i + 1) * per
        reps = []
        for attempt in range(6):
            if start >= end:
                break
            try:
                reps.append(run_harness(binary, ["total", "--property", "C07", "--seed", seed, "--from", start, "--count", end - start, "--trace", trace, "--journal", journal],
                                        "C07_t%d_%d" % (i, attempt), timeout=tq(tier, 1500, 20000), crash_is_data=True))
                break
            except HarnessCrash as e:
                import struct
                try:
                    idx = struct.unpack("<Q", open(journal, "rb").read(8))[0]
                except Exception:
                    raise ToolError("harness crashed and left no journal: %s" % e)
                last = (e.stderr.strip().splitlines() or ["fatal signal"])[-1][:300]
                crashes.append({"property": "C07", "desc": "the process was killed (rc=%s) while decoding case %d: %s" % (e.rc, idx, last),
                                "case": {"kind": "total", "seed": int(seed), "index": idx, "crash": True}})
                if idx > start:
                    # the cases before it (their report died with the process)
                    try:
                        reps.append(run_harness(binary, ["total", "--property", "C07", "--seed", seed, "--from", start, "--count", idx - start, "--journal", journal],
                                                "C07_t%d_%db" % (i, attempt), timeout=tq(tier, 1500, 20000), crash_is_data=True))
                    except HarnessCrash:
                        pass
                start = idx + 1
        if not reps:
            reps.append({"evaluations": 0, "distinct_nontrivial": 0, "violations": [], "tool_errors": [], "counters": {}, "samples": [], "drift": [], "traces": [], "dontcare": 0, "wall_s": 0})
        return reps, trace
    with ThreadPoolExecutor(max_workers=nproc) as ex:
        outs = list(ex.map(job, range(nproc)))
    alltrace = os.path.join(WORK, "trace_C07.ndjson")
    with open(alltrace, "w") as f:
        for reps, tr in outs:
          for rep in reps:
            res.add_harness(rep, "seeded cases (pure function of seed and index): uniformly random bytes, random bytes after a plausible header, valid LZMA / LZMA2 / XZ streams with bit flips, truncation, duplication, splicing, field and byte extremes, trailing bytes; XZ fields set to extreme values with CRCs repaired; raw decoder with arbitrary parameters; headers announcing huge dictionaries and sizes; long-output streams - through all six decoding entry points, all options, memory limits, random chunkings", counts_as_traces=False)
          if os.path.exists(tr):
                # validate a bounded sample with TLC (first 40k events of each worker)
                with open(tr) as g:
                    for k, line in enumerate(g):
                        if k >= tq(tier, 40000, 120000):
                            break
                        f.write(line)
                os.remove(tr)
    res.violations.extend(crashes)
    ok, info = validate_trace("Trace_Totality", "Trace_Totality.cfg", alltrace, "C07_trace", timeout=tq(tier, 900, 7200))
    res.add_tlc(info, "trace validation: every call returned Ok/Err and its peak heap growth respects A0 + K * (input + produced)")
    text = open(info["out"], errors="replace").read()
    if ok:
        res.traces += info["distinct"] - 1
    else:
        res.violations.append({"property": "C07", "desc": "Trace_Totality rejected the recorded outcomes (a call that is neither Ok nor Err, or an allocation beyond A0 + K*(input+produced)): %s" % (info.get("reject") or info.get("error") or "")[:400], "case": {"kind": "tlc-trace", "trace_file": alltrace}})
    res.level = "model_checking"
    return ("cases are generated from (seed, index); distinct = distinct indices with non-empty input; the uniformly random families are exploration, the structured families (grammar + field extremes) are derived from the format models"), [
        "TLC 1.8; Totality.tla + the structural invariants of the other models", "the counting global allocator of the harness (peak live heap growth during the call, sink included)", "watchdog: 30 s per input",
        "overflow-checked arithmetic is what the harness is built with (any wrap would surface as a panic); the thorough tier additionally builds without overflow checks"]

PLANS = {"C01": plan_C01, "C05": plan_C05, "C08": plan_C08, "C09": plan_C09, "C10": plan_C10, "C15": plan_C15, "C16": plan_C16, "C03": plan_C03, "C06": plan_C06, "C18": plan_C18, "C02": plan_C02, "C17": plan_C17, "C12": plan_C12, "C13": plan_C13, "C11": plan_C11, "C14": plan_C14, "C04": plan_C04, "C07": plan_C07}

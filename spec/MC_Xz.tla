---- MODULE MC_Xz ----
(***************************************************************************)
(* Bounded instance of Xz: every file of 0..MaxBlocks blocks over the       *)
(* payload library x check ids x optional size fields x header sizes,       *)
(* well-formed or with exactly ONE mutated field (enclosing CRCs repaired). *)
(* Every file is one initial state; invariants compare the transcribed      *)
(* parser with the declarative reading; each file is exported with the      *)
(* predicted verdict for replay into xz_decompress.                         *)
(***************************************************************************)
EXTENDS Xz, Json, IOUtils
CONSTANTS MaxBlocks, Checks, Pids, Pids2, BwBits
VARIABLES file, shapes, mut, origc, done
vars == <<file, shapes, mut, origc, done>>
\* payload library: (LZMA2 bytes, decoded bytes) of the payloads the harness serialises (d_xz.rs
\* payload_lib); the harness refuses to run (tool error) if its library disagrees
LibDef == << [plen |-> 5, ulen |-> 1], [plen |-> 6, ulen |-> 2], [plen |-> 7, ulen |-> 3], [plen |-> 8, ulen |-> 4],
             [plen |-> 1, ulen |-> 0], [plen |-> 12, ulen |-> 5], [plen |-> 16, ulen |-> 8], [plen |-> 24, ulen |-> 303],
             [plen |-> 20004, ulen |-> 20000] >>

\* header sizes: minimal, +4, and two sizes whose stored size byte is >= 0x40 (260..1024 bytes: legal, only extra padding)
BlockShapes == {[pid |-> p, hsize |-> hs, hasP |-> hp, hasU |-> hu] :
                   p \in Pids, hp \in BOOLEAN, hu \in BOOLEAN, hs \in {0, 4, 256, 260, 1024}}
\* hs = 0 / 4: minimal / minimal + 4; 256 (size byte 0x3F), 260 (0x40), 1024 (0xFF, the maximum) are absolute
\* blocks after the first come from a smaller family (keeps the enumeration tractable)
BlockShapes2 == {[pid |-> p, hsize |-> 0, hasP |-> hp, hasU |-> hu] :
                   p \in Pids2, hp \in BOOLEAN, hu \in BOOLEAN}
RECURSIVE SeqsUpTo(_, _)
SeqsUpTo(S, n) == IF n = 0 THEN {<<>>} ELSE LET P == SeqsUpTo(S, n - 1) IN P \cup {Append(q, x) : q \in {r \in P : Len(r) = n - 1}, x \in S}

NoMut == [f |-> "none", b |-> 0, v |-> 0]
FileMuts(g) ==
  {[f |-> n, b |-> 0, v |-> 0] : n \in {"hmagic", "hcrc", "idxCrc", "fcrc", "fmagic"}}
  \cup {[f |-> n, b |-> 0, v |-> v] : n \in {"hnull", "fnull"}, v \in {1, 2, 4, 8, 16, 32, 64, 128}}   \* each bit of the reserved first flags byte
  \cup {[f |-> "idxPad", b |-> 0, v |-> v] : v \in 1..4}            \* four concrete ways of being non-zero
  \cup {[f |-> n, b |-> 0, v |-> v] : n \in {"hres", "fres", "bothres"}, v \in {1, 2, 4, 8}}   \* reserved nibble of the flags byte
  \cup {[f |-> "hcheck", b |-> 0, v |-> c] : c \in {0, 1, 4} \ {g.check}}
  \cup {[f |-> "fcheck", b |-> 0, v |-> c] : c \in {0, 1, 4, 10} \ {g.check}}
  \cup {[f |-> "idxN", b |-> 0, v |-> v] : v \in {g.idxN + 1} \cup (IF g.idxN > 0 THEN {g.idxN - 1} ELSE {})}
  \* a self-consistent SHORTER index: count k, the first k records, padding / CRC / backward size all right for it
  \cup {[f |-> "idxFewer", b |-> 0, v |-> k] : k \in 0..(g.idxN - 1)}
  \* per-block records wrong while count and column totals stay right: the first two records swapped (1), four
  \* unpadded bytes moved from the second to the first (2), one uncompressed byte moved (3)
  \cup (IF g.idxN >= 2 /\ g.idxRecs[1] # g.idxRecs[2] THEN {[f |-> "idxPerm", b |-> 0, v |-> 1]} ELSE {})
  \cup (IF g.idxN >= 2 /\ g.idxRecs[2][1] > 4 THEN {[f |-> "idxPerm", b |-> 0, v |-> 2]} ELSE {})
  \cup (IF g.idxN >= 2 /\ g.idxRecs[2][2] > 0 THEN {[f |-> "idxPerm", b |-> 0, v |-> 3]} ELSE {})
  \cup {[f |-> "backward", b |-> 0, v |-> v] : v \in {g.backward + 1, g.backward + 2 ^ (BwBits - 2)} \cup (IF g.backward > 0 THEN {g.backward - 1} ELSE {})}
  \cup {[f |-> "trailing", b |-> 0, v |-> v] : v \in {1, 4}}
BlockMuts(g, i) ==
  LET b == g.blocks[i] IN
  {[f |-> "bhcrc", b |-> i, v |-> 0]}
  \cup {[f |-> "reserved", b |-> i, v |-> v] : v \in {4, 8, 16, 32, 60}}      \* each reserved bit of the block flags, and all
  \cup {[f |-> n, b |-> i, v |-> v] : n \in {"hpad", "bpad"}, v \in 1..4}
  \cup (IF g.check \in {1, 4} THEN {[f |-> "check", b |-> i, v |-> 0]} ELSE {})
  \* 289 = 0x121; 1000001.. are symbolic for ids beyond 32 bits whose low bits equal 0x21 (the harness writes
  \* 2^32 + 0x21, 2^40 + 0x21, 2^62 + 0x21): a narrowed id must not pass for LZMA2
  \cup {[f |-> "fid", b |-> i, v |-> v] : v \in {3, 4, 9, 289, 1000001, 1000002, 1000003}}
  \* sizes that are right modulo 2^32 (the harness adds 2^32 to the correct value)
  \cup {[f |-> n, b |-> i, v |-> 0] : n \in ({"idxUnpaddedBig", "idxUnpackedBig"} \cup (IF b.hasP THEN {"pdeclBig"} ELSE {}) \cup (IF b.hasU THEN {"udeclBig"} ELSE {}))}
  \cup {[f |-> "nfilters", b |-> i, v |-> 2]}
  \cup {[f |-> "propsLen", b |-> i, v |-> v] : v \in {0, 2}}
  \cup (IF b.hasP THEN {[f |-> "pdecl", b |-> i, v |-> v] : v \in {b.pdecl + 1} \cup (IF b.pdecl > 0 THEN {b.pdecl - 1} ELSE {})} ELSE {})
  \cup (IF b.hasU THEN {[f |-> "udecl", b |-> i, v |-> v] : v \in {b.udecl + 1} \cup (IF b.udecl > 0 THEN {b.udecl - 1} ELSE {})} ELSE {})
  \cup {[f |-> "idxUnpadded", b |-> i, v |-> v] : v \in {g.idxRecs[i][1] + 1, g.idxRecs[i][1] - 1, g.idxRecs[i][1] + 4}}
  \cup {[f |-> "idxUnpacked", b |-> i, v |-> v] : v \in {g.idxRecs[i][2] + 1} \cup (IF g.idxRecs[i][2] > 0 THEN {g.idxRecs[i][2] - 1} ELSE {})}
Muts(g) == {NoMut} \cup FileMuts(g) \cup UNION {BlockMuts(g, i) : i \in 1..Len(g.blocks)}

Mutate(g, m) ==
  CASE m.f = "none"    -> g
    [] m.f = "hmagic"  -> [g EXCEPT !.hmagicOk = FALSE]
    [] m.f = "hnull"   -> [g EXCEPT !.hnull = FALSE]
    [] m.f = "hcrc"    -> [g EXCEPT !.hcrcOk = FALSE]
    [] m.f = "hres"    -> [g EXCEPT !.hres = m.v]
    [] m.f = "fres"    -> [g EXCEPT !.fres = m.v]
    [] m.f = "bothres" -> [g EXCEPT !.hres = m.v, !.fres = m.v]
    [] m.f = "hcheck"  -> [g EXCEPT !.check = m.v]
    [] m.f = "fcheck"  -> [g EXCEPT !.fcheck = m.v]
    [] m.f = "idxPad"  -> [g EXCEPT !.idxPadOk = FALSE]
    [] m.f = "idxCrc"  -> [g EXCEPT !.idxCrcOk = FALSE]
    [] m.f = "fcrc"    -> [g EXCEPT !.fcrcOk = FALSE]
    [] m.f = "fnull"   -> [g EXCEPT !.fnull = FALSE]
    [] m.f = "fmagic"  -> [g EXCEPT !.fmagicOk = FALSE]
    [] m.f = "idxN"    -> [g EXCEPT !.idxN = m.v]
    [] m.f = "idxFewer" -> [g EXCEPT !.idxN = m.v, !.idxRecs = SubSeq(@, 1, m.v),
                                      !.backward = (IndexSize(m.v, SubSeq(g.idxRecs, 1, m.v)) \div 4) - 1]
    [] m.f = "idxPerm"  -> LET r == g.idxRecs
                               nr == CASE m.v = 1 -> [r EXCEPT ![1] = r[2], ![2] = r[1]]
                                       [] m.v = 2 -> [r EXCEPT ![1] = <<r[1][1] + 4, r[1][2]>>, ![2] = <<r[2][1] - 4, r[2][2]>>]
                                       [] m.v = 3 -> [r EXCEPT ![1] = <<r[1][1], r[1][2] + 1>>, ![2] = <<r[2][1], r[2][2] - 1>>]
                           IN [g EXCEPT !.idxRecs = nr, !.backward = (IndexSize(g.idxN, nr) \div 4) - 1]
    [] m.f = "backward" -> [g EXCEPT !.backward = m.v]
    [] m.f = "trailing" -> [g EXCEPT !.trailing = m.v]
    [] m.f = "reserved" -> [g EXCEPT !.blocks[m.b].reserved = TRUE]
    [] m.f = "hpad"    -> [g EXCEPT !.blocks[m.b].hpadOk = FALSE]
    [] m.f = "bhcrc"   -> [g EXCEPT !.blocks[m.b].hcrcOk = FALSE]
    [] m.f = "bpad"    -> [g EXCEPT !.blocks[m.b].bpadOk = FALSE]
    [] m.f = "check"   -> [g EXCEPT !.blocks[m.b].checkOk = FALSE]
    [] m.f = "fid"     -> [g EXCEPT !.blocks[m.b].fid = m.v]
    [] m.f = "nfilters" -> [g EXCEPT !.blocks[m.b].nfilters = m.v]
    [] m.f = "propsLen" -> [g EXCEPT !.blocks[m.b].propsLen = m.v]
    [] m.f = "pdecl"   -> [g EXCEPT !.blocks[m.b].pdecl = m.v]
    [] m.f = "udecl"   -> [g EXCEPT !.blocks[m.b].udecl = m.v]
    [] m.f = "pdeclBig" -> [g EXCEPT !.blocks[m.b].pdecl = @ + 1000000]
    [] m.f = "udeclBig" -> [g EXCEPT !.blocks[m.b].udecl = @ + 1000000]
    [] m.f = "idxUnpaddedBig" -> [g EXCEPT !.idxRecs[m.b] = <<@[1] + 1000000, @[2]>>]
    [] m.f = "idxUnpackedBig" -> [g EXCEPT !.idxRecs[m.b] = <<@[1], @[2] + 1000000>>]
    [] m.f = "idxUnpadded" -> [g EXCEPT !.idxRecs[m.b] = <<m.v, @[2]>>]
    [] m.f = "idxUnpacked" -> [g EXCEPT !.idxRecs[m.b] = <<@[1], m.v>>]

\* Files are built incrementally (one block per step, then the mutation) so that TLC's workers
\* share the enumeration; invariants are evaluated on finished files only.
Init == /\ origc \in Checks /\ shapes = <<>> /\ mut = NoMut /\ done = FALSE
        /\ file = GoodFile(origc, <<>>)
Abs(s) == IF s.hsize >= 256 THEN s ELSE [s EXCEPT !.hsize = MinHdr(s.hasP, s.hasU, Lib[s.pid].plen, Lib[s.pid].ulen) + s.hsize]
AddBlock == /\ ~done /\ Len(shapes) < MaxBlocks
            /\ \E s0 \in (IF shapes = <<>> THEN BlockShapes ELSE BlockShapes2) :
                 LET s == Abs(s0) IN shapes' = Append(shapes, s) /\ file' = GoodFile(origc, Append(shapes, s))
            /\ UNCHANGED <<mut, origc, done>>
Finalize == /\ ~done
            /\ \E m \in Muts(file) : mut' = m /\ file' = Mutate(file, m)
            /\ done' = TRUE /\ UNCHANGED <<shapes, origc>>
Next == AddBlock \/ Finalize \/ (done /\ UNCHANGED vars)
Spec == Init /\ [][Next]_vars

\* ---- properties ----
P == Parse(file)
AcceptsWellFormed      == (done /\ mut.f = "none" /\ Supported(file)) => P.accept            \* C03
AcceptImpliesIntegrity == (done /\ P.accept) => (Integrity(file) /\ Supported(file))             \* C06 (+C18)
UnsupportedRefused     == (done /\ ~Supported(file)) => ~P.accept                                \* C18
SinkOnlyVerified       == done => (P.sunkVerified /\ (P.accept => P.sunk = TotalOut(file)))      \* C06
MutationsAreCaught     == (done /\ mut.f # "none") => ~P.accept
\* every size stays far inside the Rust types (u64 / usize); the only narrowing was the footer comparison
NoWrap == \A i \in 1..Len(file.blocks) : Unpadded(file.blocks[i], file.check) < 2 ^ 30

Emit == done => PrintT(<<"XZ", ToJson([check |-> file.check, shapes |-> shapes, mut |-> mut, accept |-> P.accept, sunk |-> P.sunk,
                               out |-> TotalOut(file), orig |-> origc])>>)
====

---- MODULE Trace_Lzma ----
(***************************************************************************)
(* Trace validation of the LZMA symbol layer: every symbol the real decoder *)
(* commits (events emitted by the cfg-gated hooks at the linearization      *)
(* points of process_next_inner: after the window was updated, before the   *)
(* next symbol is read) must be a step of the format's automaton            *)
(* (LzmaCoding: LitNext / MatchNext / RepNext / ShortNext, repeat-distance  *)
(* LRU rotation), its copy must be valid for the history produced so far    *)
(* and the dictionary in effect, and the output length must advance by the  *)
(* symbol's length.  LZMA2 chunk headers reset state / history as the       *)
(* format says (control byte class), uncompressed chunks add their bytes.   *)
(* Executions: the repository's own .lzma/.xz test files (real liblzma      *)
(* encoder output) and spec-generated streams.                              *)
(***************************************************************************)
EXTENDS LzmaCoding, Json, IOUtils
Rec == ndJsonDeserialize(IOEnv.TRACE)
VARIABLES l, st, rep, outlen, dict
tvars == <<l, st, rep, outlen, dict>>
TInit == l = 1 /\ st = 0 /\ rep = <<0, 0, 0, 0>> /\ outlen = 0 /\ dict = 0
IsEv(e) == l <= Len(Rec) /\ Rec[l].ev = e /\ l' = l + 1
ValidDist(dd) == dd >= 1 /\ dd <= outlen /\ (dict = 0 \/ dd <= dict)

\* a new stream / decoder: dictionary size in effect (0 = unbounded accumulating window)
TStart == IsEv("start") /\ st' = 0 /\ rep' = <<0, 0, 0, 0>> /\ outlen' = 0 /\ dict' = Rec[l].dict
TLit == /\ IsEv("lit")
        /\ (st >= 7 => ValidDist(rep[1] + 1))          \* matched literal needs its match byte
        /\ st' = LitNext[st + 1] /\ st' = Rec[l].st
        /\ outlen' = outlen + 1 /\ outlen' = Rec[l].outlen
        /\ UNCHANGED <<rep, dict>>
TShort == /\ IsEv("short")
          /\ Rec[l].dist = rep[1] + 1 /\ ValidDist(Rec[l].dist)
          /\ st' = ShortNext(st) /\ st' = Rec[l].st
          /\ outlen' = outlen + 1 /\ outlen' = Rec[l].outlen
          /\ UNCHANGED <<rep, dict>>
TCopy == /\ IsEv("copy")
         /\ LET k == Rec[l].kind  n == Rec[l].len  dd == Rec[l].dist IN
            /\ n \in 2..273 /\ ValidDist(dd)
            /\ IF k = 0
               THEN /\ rep' = <<dd - 1, rep[1], rep[2], rep[3]>> /\ st' = MatchNext(st)
               ELSE /\ k \in 1..4 /\ dd = rep[k] + 1
                    /\ rep' = (CASE k = 1 -> rep
                                 [] k = 2 -> <<rep[2], rep[1], rep[3], rep[4]>>
                                 [] k = 3 -> <<rep[3], rep[1], rep[2], rep[4]>>
                                 [] k = 4 -> <<rep[4], rep[1], rep[2], rep[3]>>)
                    /\ st' = RepNext(st)
            /\ st' = Rec[l].st
            /\ outlen' = outlen + n /\ outlen' = Rec[l].outlen
         /\ UNCHANGED dict
TEos == IsEv("eos") /\ Rec[l].outlen = outlen /\ UNCHANGED <<st, rep, outlen, dict>>
\* LZMA2 chunk header: class = (control >> 5) & 3
TChunk == /\ IsEv("l2lzma")
          /\ LET cl == Rec[l].class IN
             /\ st' = (IF cl >= 1 THEN 0 ELSE st)
             /\ rep' = (IF cl >= 1 THEN <<0, 0, 0, 0>> ELSE rep)
             /\ outlen' = (IF cl = 3 THEN 0 ELSE outlen) /\ outlen' = Rec[l].acclen
          /\ UNCHANGED dict
TRaw == /\ IsEv("l2raw")
        /\ outlen' = (IF Rec[l].reset THEN 0 ELSE outlen) + Rec[l].size /\ outlen' = Rec[l].acclen
        /\ UNCHANGED <<st, rep, dict>>
TNext == TStart \/ TLit \/ TShort \/ TCopy \/ TEos \/ TChunk \/ TRaw
TSpec == TInit /\ [][TNext]_tvars
StateRange == st \in 0..11
Accepted ==
  LET d == TLCGet("stats").diameter IN
  IF d - 1 = Len(Rec) THEN PrintT(<<"TRACE-ACCEPTED", Len(Rec)>>)
  ELSE PrintT(<<"TRACE-REJECTED at line", d, Rec[d]>>) /\ FALSE
====

---- MODULE MC_LzmaHeader ----
(***************************************************************************)
(* All 256 property bytes x dictionary classes x header size classes x      *)
(* options x caller-supplied size classes x truncation of the header;       *)
(* exported for replay into lzma_decompress_with_options and Stream.        *)
(***************************************************************************)
EXTENDS LzmaHeader, Json
VARIABLES c
Init == c \in [props : 0..255, dict : DictClasses, field : SizeClasses, opt : Opts, provided : SizeClasses, avail : {0, 1, 4, 5, 12, 13}]
Next == UNCHANGED c
Spec == Init /\ [][Next]_c
\* keep the export small: vary the props byte fully only for one combination of the rest
Interesting == \/ (c.dict = 4096 /\ c.field = "none" /\ c.provided = "none" /\ c.avail = 13)
               \/ c.props \in {0, 93, 224, 225, 255}
Emit == Interesting => PrintT(<<"HDR", ToJson([c |-> c, r |-> Parse(c.props, c.dict, c.field, c.opt, c.provided, c.avail)])>>)
Props1 == PropsBijection /\ PropsRejected /\ HeaderBytes /\ Override /\ Clamp /\ ShortIsShort
====

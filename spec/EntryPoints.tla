---- MODULE EntryPoints ----
(***************************************************************************)
(* End-of-stream and size rules of the .lzma decoders, stated once,         *)
(* declaratively, over classes of inputs - and the relation between the     *)
(* entry points that must all implement them:                               *)
(*    plain      lzma_decompress                  (default options only)    *)
(*    oneshot    lzma_decompress_with_options                               *)
(*    blocks     LzmaParams::read_header + LzmaDecoder::new + decompress    *)
(*    stream1    Stream, whole input in one write                           *)
(*    streamN    Stream, one byte per write                                 *)
(*                                                                          *)
(* A payload is abstracted to what the rules can see.  Its symbols produce  *)
(* T >= 2 bytes and the last one is a copy of length >= 2, so that "T - 1"  *)
(* lies strictly inside a copy.                                             *)
(*    marker   an end marker follows the symbols                            *)
(*    cut      the last byte of a marker-less payload is missing            *)
(*    trail    unrelated bytes follow the payload                           *)
(* The header comes from LzmaHeader (size classes: none = all-ones field /  *)
(* no size supplied, zero, tm1 = T-1, true = T, truePlus1, huge, top,       *)
(* allButOne).                                                              *)
(***************************************************************************)
EXTENDS LzmaHeader

SizeCls2 == SizeClasses \cup {"tm1"}
Bigger == {"truePlus1", "huge", "top", "allButOne"}

\* verdict classes: ok0 / okT = success with 0 / T bytes; err; any = the rules leave it open at this abstraction
\* (what the bytes after a marker-less payload decode to is arithmetic, the byte-level oracle decides)
Outcome(size, marker, cut, trail) ==
  CASE size = "zero"          -> "ok0"     \* reached before the first symbol: nothing after the coder preamble is looked at
    [] size = "tm1"           -> "err"     \* the last copy overshoots (or, cut, never completes)
    [] size = "true"          -> IF cut THEN "err" ELSE "okT"      \* marker and trailing bytes are not even read
    [] size \in Bigger        -> IF marker THEN "err"              \* marker met before the size was reached
                                 ELSE IF trail THEN "any"          \* whatever follows is decoded as symbols
                                 ELSE "err"                        \* input runs out first
    [] size = "none"          -> IF marker THEN (IF trail THEN "err" ELSE "okT")
                                 ELSE "any"                        \* no marker and no size: clean ends are tolerated
    [] OTHER                  -> "err"

\* input consumed from a reader on success (entry points that read): header + ...
Consumed(size, marker) ==
  CASE size = "zero" -> "preamble"           \* header + the five coder bytes
    [] size = "true" -> "symbols"            \* up to the end of the last symbol, not the marker
    [] size = "none" -> "all"
    [] OTHER         -> "n/a"

EntryPointsOf(opt) == {"oneshot", "blocks", "stream1", "streamN"} \cup (IF opt = "ReadFromHeader" THEN {"plain"} ELSE {})
Readers == {"plain", "oneshot", "blocks"}

Case == [opt : Opts, field : SizeCls2, provided : SizeCls2, marker : BOOLEAN, cut : BOOLEAN, trail : BOOLEAN]
WellFormedCase(c) == /\ ~(c.cut /\ (c.marker \/ c.trail))
                     /\ (c.opt = "UseProvided" => c.field = "none")            \* no field in a 5-byte header
                     /\ (c.opt = "ReadFromHeader" => c.provided = "none")      \* nothing supplied under the default
Eff(c) == Parse(93, 4096, c.field, c.opt, c.provided, 13).size
Verdict(c) == Outcome(Eff(c), c.marker, c.cut, c.trail)

\* ---- what the rules imply (checked by TLC over all cases) ----
\* C08: success under a size in effect means exactly that many bytes
SizeExact == \A c \in Case : WellFormedCase(c) =>
   /\ (Verdict(c) = "okT" => Eff(c) \in {"true", "none"})
   /\ (Verdict(c) = "ok0" => Eff(c) = "zero")
\* C08: a supplied size always overrides the header field
OverrideRule == \A c \in Case, f \in SizeCls2 :
   (WellFormedCase(c) /\ c.opt = "ReadHeaderButUseProvided") => Verdict(c) = Verdict([c EXCEPT !.field = f])
\* C08/C11: with no size in effect anything after the marker is an error; with a size, what follows is ignored
MarkerEnds == \A c \in Case : (WellFormedCase(c) /\ Eff(c) = "none" /\ c.marker /\ c.trail) => Verdict(c) = "err"
TrailIgnored == \A c \in Case, t \in BOOLEAN, m \in BOOLEAN :
   (WellFormedCase(c) /\ Eff(c) = "true" /\ ~c.cut) => Verdict(c) = Verdict([c EXCEPT !.trail = t, !.marker = m])
\* the three options differ only through the size in effect: the verdict is a function of (size in effect, payload)
OptionsAgree == \A c \in Case : WellFormedCase(c) => Verdict(c) = Outcome(Eff(c), c.marker, c.cut, c.trail)
\* every size class is reachable as the size in effect under every option that can carry it
Reach == \A o \in Opts, z \in SizeCls2 : \E c \in Case : WellFormedCase(c) /\ c.opt = o /\ Eff(c) = z
====

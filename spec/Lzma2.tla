---- MODULE Lzma2 ----
(***************************************************************************)
(* The LZMA2 chunk layer of lzma-rs (decode/lzma2.rs Lzma2Decoder::         *)
(* decompress, parse_lzma, parse_uncompressed; decode/lzbuffer.rs           *)
(* LzAccumBuffer; DecoderState::reset_state / set_unpacked_size) at chunk   *)
(* and symbol granularity, next to the declarative chunk semantics of the   *)
(* format: what each control byte resets and which history a copy may       *)
(* reach.                                                                   *)
(*                                                                         *)
(* Implementation-shaped side: the accumulating buffer (cleared and handed  *)
(* to the sink on a dictionary reset), the carried automaton state and rep  *)
(* distances, target = buffer length + declared unpacked size, the decoder  *)
(* loop leaving at `len >= target`, the final `len = target` test, and the  *)
(* requirement that the chunk's range coder is finished when the target is  *)
(* reached (is_finished_ok, added by the D6 fix).                           *)
(*                                                                         *)
(* Declarative side: LzmaCoding!Apply over the history since the last       *)
(* dictionary reset; a chunk is valid iff all its symbols are valid copies  *)
(* within that history and it produces exactly its declared size.           *)
(*                                                                         *)
(* Properties: Refines / Verdict (C02), FramingRejected (C17),              *)
(* NoFabrication (C09 for the accumulating window).                         *)
(***************************************************************************)
EXTENDS LzmaCoding, FiniteSets

VARIABLES
  \* implementation
  acc,        \* LzAccumBuffer.buf: bytes since the last dictionary reset
  sink,       \* bytes handed to the sink (by resets and by finish)
  ist, irep,  \* carried automaton state / rep distances
  iprops,     \* lc/lp/pb in effect (0 = decoder default, n = n-th property set of the stream)
  res, why,   \* "run" | "ok" | "err"
  \* declarative twin
  d,          \* [cs |-> LzmaCoding state over the history since the last dict reset,
              \*  before |-> output before that reset, props, needReset, needProps, v]
  chunks      \* history of chunk descriptors (export)

vars == <<acc, sink, ist, irep, iprops, res, why, d, chunks>>

Min(a, b) == IF a < b THEN a ELSE b

\* ---------------- LzAccumBuffer, transcribed: w = [acc, err, fab] ----------------
RECURSIVE AccCopy(_, _, _)
AccCopy(a, offset, n) == IF n = 0 THEN a ELSE AccCopy(Append(a, a[offset + 1]), offset + 1, n - 1)
\* fn append_lz(len, dist): dist > buf.len() -> Err ; offset = buf_len - dist
AccLz(a, n, dist) == IF dist > Len(a) THEN [acc |-> a, err |-> TRUE] ELSE [acc |-> AccCopy(a, Len(a) - dist, n), err |-> FALSE]

LitState(s)   == IF s < 4 THEN 0 ELSE IF s < 10 THEN s - 3 ELSE s - 6
RepRotate(r, idx) == LET dist == r[idx + 1] IN [j \in 1..4 |-> IF j = 1 THEN dist ELSE IF j <= idx + 1 THEN r[j - 1] ELSE r[j]]

\* one symbol through process_next_inner on the accumulating buffer: m = [acc, st, rep, err]
SymStep(m, s) ==
  CASE s.k = "lit" ->
         IF m.st >= 7 /\ m.rep[1] + 1 > Len(m.acc) THEN [m EXCEPT !.err = TRUE]      \* last_n fails
         ELSE [m EXCEPT !.acc = Append(m.acc, s.b), !.st = LitState(m.st)]
    [] s.k = "match" ->
         LET w == AccLz(m.acc, s.n, s.d) IN
         IF w.err THEN [m EXCEPT !.err = TRUE]
         ELSE [m EXCEPT !.acc = w.acc, !.st = IF m.st < 7 THEN 7 ELSE 10, !.rep = <<s.d - 1, m.rep[1], m.rep[2], m.rep[3]>>]
    [] s.k = "short" ->
         LET w == AccLz(m.acc, 1, m.rep[1] + 1) IN
         IF w.err THEN [m EXCEPT !.err = TRUE] ELSE [m EXCEPT !.acc = w.acc, !.st = IF m.st < 7 THEN 9 ELSE 11]
    [] s.k = "rep" ->
         LET nrep == IF s.r = 0 THEN m.rep ELSE RepRotate(m.rep, s.r)
             w == AccLz(m.acc, s.n, nrep[1] + 1) IN
         IF w.err THEN [m EXCEPT !.err = TRUE] ELSE [m EXCEPT !.acc = w.acc, !.st = IF m.st < 7 THEN 8 ELSE 11, !.rep = nrep]

\* DecoderState::process over the chunk's symbols: leave the loop as soon as len >= target.
\* Returns [m, used] (used = symbols consumed from the payload)
RECURSIVE RunProg(_, _, _, _)
RunProg(m, prog, i, target) ==
  IF m.err \/ Len(m.acc) >= target \/ i > Len(prog) THEN [m |-> m, used |-> i - 1]
  ELSE RunProg(SymStep(m, prog[i]), prog, i + 1, target)

\* ---------------- chunk actions ----------------
\* c = [k |-> "lzma", class, newprops (0 = none), prog, u (declared unpacked size), pk ("exact"|"short"|"long"), eos (marker after prog)]
\*     [k |-> "raw", reset, data, short (BOOLEAN: fewer data bytes than declared)]
ProgOut(cs0, prog) ==   \* declarative: [ok, cs] after applying the whole program
  LET F[i \in 0..Len(prog)] ==
        IF i = 0 THEN [ok |-> TRUE, cs |-> cs0]
        ELSE IF ~F[i - 1].ok \/ ~Valid(F[i - 1].cs, prog[i]) THEN [ok |-> FALSE, cs |-> F[i - 1].cs]
        ELSE [ok |-> TRUE, cs |-> Apply(F[i - 1].cs, prog[i])]
  IN F[Len(prog)]

LzmaChunk(c) ==
  /\ res = "run"
  /\ chunks' = Append(chunks, c)
  \* ---- implementation ----
  /\ LET resetDict  == c.class = 3
         resetState == c.class >= 1
         acc0  == IF resetDict THEN <<>> ELSE acc
         sink0 == IF resetDict THEN sink \o acc ELSE sink          \* accum.reset(): write_all(buf), clear
         st0   == IF resetState THEN 0 ELSE ist
         rep0  == IF resetState THEN <<0, 0, 0, 0>> ELSE irep
         target == Len(acc0) + c.u
         r  == RunProg([acc |-> acc0, st |-> st0, rep |-> rep0, err |-> FALSE], c.prog, 1, target)
         m  == r.m
         \* input short: a symbol (or the preamble) needs bytes beyond the Take limit
         starved == c.pk = "short" \/ (~m.err /\ Len(m.acc) < target)   \* program ended before target: decoder reads on -> EOF
         \* after the loop: len must equal target; range coder must be finished (all symbols used, no spare bytes)
         finished == r.used = Len(c.prog) /\ c.pk = "exact" /\ ~(c.eos /\ Len(m.acc) >= target)   \* an unread marker is spare input
         \* an end marker inside the chunk (after the program): Finished -> leave the loop -> len # target -> error
         eosHit == c.eos /\ ~m.err /\ r.used = Len(c.prog) /\ Len(m.acc) < target
         bad == m.err \/ (starved /\ ~eosHit) \/ eosHit \/ Len(m.acc) # target \/ ~finished
     IN /\ sink' = sink0
        /\ iprops' = IF c.class >= 2 THEN c.newprops ELSE iprops
        /\ IF bad
           THEN /\ res' = "err"
                /\ why' = (IF m.err THEN "dist" ELSE IF eosHit THEN "eos-in-chunk" ELSE IF c.pk = "short" THEN "packed-short" ELSE IF Len(m.acc) < target THEN "unpacked-more"
                           ELSE IF Len(m.acc) > target THEN "unpacked-less-inside-match" ELSE IF r.used < Len(c.prog) THEN "unpacked-less-between-symbols" ELSE "packed-long")
                /\ acc' = acc0 /\ UNCHANGED <<ist, irep>>
           ELSE /\ acc' = m.acc /\ ist' = m.st /\ irep' = m.rep /\ UNCHANGED <<res, why>>
  \* ---- declarative ----
  /\ LET hist0 == IF c.class = 3 THEN <<>> ELSE d.cs.out
         cs0 == [st |-> IF c.class >= 1 THEN 0 ELSE d.cs.st, rep |-> IF c.class >= 1 THEN <<0, 0, 0, 0>> ELSE d.cs.rep, out |-> hist0]
         p == ProgOut(cs0, c.prog)
         good == p.ok /\ Len(p.cs.out) - Len(hist0) = c.u /\ c.pk = "exact" /\ ~c.eos      \* LZMA2 chunks never carry an end marker
     IN d' = IF good THEN [d EXCEPT !.cs = p.cs, !.before = IF c.class = 3 THEN @ \o d.cs.out ELSE @,
                                    !.props = IF c.class >= 2 THEN c.newprops ELSE @]
             ELSE [d EXCEPT !.v = "err"]

RawChunk(c) ==
  /\ res = "run"
  /\ chunks' = Append(chunks, c)
  /\ LET acc0  == IF c.reset THEN <<>> ELSE acc
         sink0 == IF c.reset THEN sink \o acc ELSE sink
     IN /\ sink' = sink0
        /\ IF c.short THEN res' = "err" /\ why' = "raw-short" /\ acc' = acc0          \* read_exact fails
           ELSE acc' = acc0 \o c.data /\ UNCHANGED <<res, why>>                       \* append_bytes
        /\ UNCHANGED <<ist, irep, iprops>>
  /\ d' = IF c.short THEN [d EXCEPT !.v = "err"]
          ELSE [d EXCEPT !.cs.out = (IF c.reset THEN <<>> ELSE @) \o c.data, !.before = IF c.reset THEN @ \o d.cs.out ELSE @]

\* control byte 0: finish(): write_all(buf), flush
EndChunk ==
  /\ res = "run"
  /\ chunks' = Append(chunks, [k |-> "end"])
  /\ res' = "ok" /\ why' = "end" /\ sink' = sink \o acc
  /\ d' = [d EXCEPT !.v = "ok"]
  /\ UNCHANGED <<acc, ist, irep, iprops>>

\* control byte 0x03..0x7F
BadControl(b) ==
  /\ res = "run"
  /\ chunks' = Append(chunks, [k |-> "badcontrol", b |-> b])
  /\ res' = "err" /\ why' = "control" /\ d' = [d EXCEPT !.v = "err"]
  /\ UNCHANGED <<acc, sink, ist, irep, iprops>>

\* properties byte >= 225 or lc + lp > 4 in a chunk that carries properties
BadProps(class, kind) ==
  /\ res = "run"
  /\ chunks' = Append(chunks, [k |-> "badprops", class |-> class, kind |-> kind])
  /\ res' = "err" /\ why' = "props" /\ d' = [d EXCEPT !.v = "err"]
  /\ sink' = IF class = 3 THEN sink \o acc ELSE sink           \* the dictionary reset happens before the props byte is read
  /\ acc' = IF class = 3 THEN <<>> ELSE acc
  /\ UNCHANGED <<ist, irep, iprops>>

\* input ends where a control byte is expected
MissingEnd ==
  /\ res = "run"
  /\ chunks' = Append(chunks, [k |-> "eof"])
  /\ res' = "err" /\ why' = "missing-end" /\ d' = [d EXCEPT !.v = "err"]
  /\ UNCHANGED <<acc, sink, ist, irep, iprops>>

\* ---------------- invariants ----------------
IsPrefixOf(a, b) == Len(a) <= Len(b) /\ SubSeq(b, 1, Len(a)) = a
Refines   == res = "run" => (acc = d.cs.out /\ sink = d.before /\ ist = d.cs.st /\ irep = d.cs.rep /\ iprops = d.props)
Verdict   == /\ (res = "err") = (d.v = "err")
             /\ (res = "ok") = (d.v = "ok")
             /\ (res = "ok" => sink = d.before \o d.cs.out)
SinkPrefix == IsPrefixOf(sink, d.before \o d.cs.out)
\* C17: every framing fault ends in an error (never "ok")
FramingRejected == why \in {"control", "props", "eos-in-chunk", "packed-short", "packed-long", "unpacked-more", "unpacked-less-inside-match",
                            "unpacked-less-between-symbols", "raw-short", "missing-end"} => res = "err"
====

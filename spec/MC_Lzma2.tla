---- MODULE MC_Lzma2 ----
(***************************************************************************)
(* Bounded instance of Lzma2: all chunk sequences (format-valid in their    *)
(* reset discipline) up to MaxChunks chunks with programs of up to MaxProg  *)
(* symbols, optionally ending in ONE framing fault; exported for replay.    *)
(***************************************************************************)
EXTENDS Lzma2, Json
CONSTANTS MaxChunks, MaxProg, Lits, Dists, Lens, Datas

SymSet == {[k |-> "lit", b |-> b] : b \in Lits}
     \cup {[k |-> "match", d |-> dd, n |-> n] : dd \in Dists, n \in Lens}
     \cup {[k |-> "short"]}
     \cup {[k |-> "rep", r |-> r, n |-> 2] : r \in 0..1}
RECURSIVE SeqsN(_, _)
SeqsN(S, n) == IF n = 0 THEN {<<>>} ELSE LET P == SeqsN(S, n - 1) IN P \cup {Append(q, x) : q \in {r \in P : Len(r) = n - 1}, x \in S}
Progs == SeqsN(SymSet, MaxProg) \ {<<>>}
RECURSIVE GainOf(_, _)
GainOf(p, i) == IF i = 0 THEN 0 ELSE GainOf(p, i - 1) + Gain(p[i])

DatasQuick == {<<7>>, <<8, 9, 8>>}

Init ==
  /\ acc = <<>> /\ sink = <<>> /\ ist = 0 /\ irep = <<0, 0, 0, 0>> /\ iprops = 0
  /\ res = "run" /\ why = ""
  /\ d = [cs |-> InitCS, before |-> <<>>, props |-> 0, v |-> "run"]
  /\ chunks = <<>>

NChunks == Len(chunks)
\* reset discipline of the format: the first chunk resets the dictionary; after an uncompressed
\* dictionary reset the next LZMA chunk must carry properties
NeedDictReset == NChunks = 0
NeedProps == \/ d.props = 0
             \/ \E i \in 1..NChunks : /\ chunks[i].k = "raw" /\ chunks[i].reset
                                      /\ \A j \in (i + 1)..NChunks : ~(chunks[j].k = "lzma" /\ chunks[j].class >= 2)
ClassOk(cl) == (NeedDictReset => cl = 3) /\ (NeedProps => cl >= 2)

GoodLzma ==
  /\ NChunks < MaxChunks
  /\ \E cl \in 0..3, p \in Progs :
       /\ ClassOk(cl)
       /\ GainOf(p, Len(p)) > 0
       /\ LzmaChunk([k |-> "lzma", class |-> cl, newprops |-> IF cl >= 2 THEN d.props + 1 ELSE 0, prog |-> p,
                     u |-> GainOf(p, Len(p)), pk |-> "exact", eos |-> FALSE])
FaultyLzma ==
  /\ NChunks < MaxChunks
  /\ \E cl \in 0..3, p \in Progs, f \in {"u+1", "u-1", "short", "long", "eos", "eos+1", "eos+9"} :
       /\ ClassOk(cl)
       /\ GainOf(p, Len(p)) > (IF f = "u-1" THEN 1 ELSE 0)
       /\ (ProgOut([st |-> 0, rep |-> <<0,0,0,0>>, out |-> IF cl = 3 THEN <<>> ELSE d.cs.out], p).ok \/ cl = 0)
       /\ LzmaChunk([k |-> "lzma", class |-> cl, newprops |-> IF cl >= 2 THEN d.props + 1 ELSE 0, prog |-> p,
                     u |-> GainOf(p, Len(p)) + (IF f \in {"u+1", "eos+1"} THEN 1 ELSE IF f = "eos+9" THEN 9 ELSE IF f = "u-1" THEN -1 ELSE 0),
                     pk |-> IF f = "short" THEN "short" ELSE IF f = "long" THEN "long" ELSE "exact",
                     eos |-> f \in {"eos", "eos+1", "eos+9"}])
Raw ==
  /\ NChunks < MaxChunks
  /\ \E rs \in BOOLEAN, dt \in Datas, sh \in BOOLEAN :
       /\ (NeedDictReset => rs)
       /\ RawChunk([k |-> "raw", reset |-> rs, data |-> dt, short |-> sh])

Next ==
  \/ GoodLzma \/ FaultyLzma \/ Raw
  \/ EndChunk
  \/ (\E b \in {3, 127} : BadControl(b))
  \/ (NChunks < MaxChunks /\ \E cl \in {2, 3}, kd \in {"ge225", "lclp"} : (NeedDictReset => cl = 3) /\ BadProps(cl, kd))
  \/ MissingEnd
  \/ (res # "run" /\ UNCHANGED vars)
Spec == Init /\ [][Next]_vars

Emit == res # "run" => PrintT(<<"L2", ToJson([chunks |-> chunks, res |-> res, why |-> why, out |-> d.before \o d.cs.out, sink |-> sink])>>)
====

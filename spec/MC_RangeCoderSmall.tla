---- MODULE MC_RangeCoderSmall ----
(***************************************************************************)
(* All bit strings up to MaxBits bits over NCtx adaptive contexts (context  *)
(* of bit i = i mod NCtx), encoded step by step; at every prefix the        *)
(* flushed stream is decoded again.                                         *)
(***************************************************************************)
EXTENDS RangeCoderSmall, Json
CONSTANTS MaxBits, NCtx
VARIABLES bits, enc, probs
vars == <<bits, enc, probs>>

Init == bits = <<>> /\ enc = EncInit /\ probs = [c \in 0..(NCtx - 1) |-> ProbInit]
Next == /\ Len(bits) < MaxBits
        /\ \E b \in {0, 1} :
             LET c == Len(bits) % NCtx
                 r == EncBit(enc, probs[c], b)
             IN bits' = Append(bits, b) /\ enc' = r.e /\ probs' = [probs EXCEPT ![c] = r.p]
Spec == Init /\ [][Next]_vars

Stream == EncFinish(enc).out

\* decode Len(bits) bits from the flushed stream
RECURSIVE DecodeAll(_, _, _, _)
DecodeAll(d, ps, i, acc) ==
  IF i > Len(bits) THEN [d |-> d, bits |-> acc]
  ELSE LET c == (i - 1) % NCtx
           r == DecBit(d, ps[c], Stream)
       IN DecodeAll(r.d, [ps EXCEPT ![c] = r.p], i + 1, Append(acc, r.bit))
Decoded == DecodeAll(DecInit(Stream), [c \in 0..(NCtx - 1) |-> ProbInit], 1, <<>>)

RoundTrip == Decoded.bits = bits
\* the decoder has consumed exactly what the encoder emitted: NDig + 1 + normalisations digits, no more, no less
LockStep  == /\ Len(Stream) = NDig + 1 + enc.norms
             /\ Decoded.d.pos = Len(Stream) /\ ~Decoded.d.eof
CleanEnd  == Decoded.d.code = 0
\* probabilities never leave the open interval (a bound of 0 or range would break the coder)
ProbRange == \A c \in 0..(NCtx - 1) : probs[c] \in 1..(Pow2(P) - 1)
RangeOK   == enc.range >= Top /\ enc.range < Pow2(W) /\ enc.low < Pow2(W + 1)

\* vacuity guards (selftest expects TLC to FIND these states): a carry into a run of pending all-ones digits
NoCarryIntoPending == ~(enc.low >= Pow2(W) /\ enc.cachesz >= 2)
NoLongPending == enc.cachesz <= 2
NoLowAllOnes == enc.low # Pow2(W) - 1          \* the boundary of write_low's flush test (low = 0x0_FFFF_FFFF in the code)
NoLowAtFlushEdge == enc.low # DigitMax * Top  \* the other boundary (low = 0xFF00_0000)
Emit == Len(bits) = MaxBits => PrintT(<<"RC", ToJson([bits |-> bits, out |-> Stream])>>)
====

---- MODULE MC_Reader ----
EXTENDS Reader
CONSTANTS MaxLen, Limits, NBs
VARIABLES L0, NB0
mvars == <<vars, L0, NB0>>
RECURSIVE Seqs(_)
Seqs(n) == IF n = 0 THEN {<<>>} ELSE LET P == Seqs(n - 1) IN P \cup {Append(q, x) : q \in {r \in P : Len(r) = n - 1}, x \in {0, 1}}
Init == /\ data \in Seqs(MaxLen) /\ L0 \in Limits /\ NB0 \in NBs
        /\ pos = 0 /\ win = 0 /\ pc = "pad" /\ lim = L0 /\ need = NB0 /\ res = "run" /\ ops = 0
MNext == Next /\ UNCHANGED <<L0, NB0>>
Spec == Init /\ [][MNext]_mvars /\ WF_mvars(MNext)
\* C13 on the model: whatever fragments the source chooses, the outcome is the reference outcome
FragIndependent == res # "run" => /\ res = Ref(data, L0, NB0).v
                                  /\ (res = "ok" => pos = Ref(data, L0, NB0).c)
Protocol == win >= 0 /\ pos + win <= Len(data) /\ lim >= 0
Terminates == <>(res # "run")
====

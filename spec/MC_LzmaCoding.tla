---- MODULE MC_LzmaCoding ----
(***************************************************************************)
(* Bounded instance of LzmaCoding used (a) to check the index-bound         *)
(* invariant for every explored symbol under every lc/lp/pb in PropSet and  *)
(* (b) to EXPORT behaviours for replay: one JSON line per finished program  *)
(* = (props, program, decision list, output).                               *)
(* BFS mode: all valid programs of <= MaxSyms symbols (+ end marker).       *)
(* Simulation mode (-simulate): random walks of exactly MaxSyms symbols.    *)
(***************************************************************************)
EXTENDS LzmaCoding, Json, FiniteSets
CONSTANTS MaxSyms,      \* program length bound
          ExactLen,     \* TRUE: only programs of exactly MaxSyms symbols end (simulation)
          PropSet,      \* set of <<lc, lp, pb>>
          Lits, Dists, Lens, RepLens
VARIABLES cs, prog, dec, done, pr
vars == <<cs, prog, dec, done, pr>>

SymSet == {[k |-> "lit", b |-> b] : b \in Lits}
     \cup {[k |-> "match", d |-> d, n |-> n] : d \in Dists, n \in Lens}
     \cup {[k |-> "short"]}
     \cup {[k |-> "rep", r |-> r, n |-> n] : r \in 0..3, n \in RepLens}

Init == /\ cs = InitCS /\ prog = <<>> /\ dec = <<>> /\ done = FALSE
        /\ pr \in PropSet
Step == /\ ~done /\ Len(prog) < MaxSyms
        /\ \E s \in SymSet :
             /\ Valid(cs, s)
             /\ prog' = Append(prog, s)
             /\ dec' = dec \o Decisions(cs, s, pr[1], pr[2], pr[3])
             /\ cs' = Apply(cs, s)
        /\ UNCHANGED <<done, pr>>
End  == /\ ~done /\ (ExactLen => Len(prog) = MaxSyms)
        /\ done' = TRUE
        /\ \E e \in {[k |-> "eos"]} \cup {[k |-> "eosn", n |-> n] : n \in {3, 10, 273}} :
             /\ prog' = Append(prog, e)
             /\ dec' = dec \o Decisions(cs, e, pr[1], pr[2], pr[3])
        /\ UNCHANGED <<cs, pr>>
Stutter == done /\ UNCHANGED vars
Next == Step \/ End \/ Stutter
Spec == Init /\ [][Next]_vars

\* ---- constant sets for the configurations (cfg files cannot hold tuples) ----
PropsQuick == {<<3,0,2>>, <<0,4,4>>, <<8,4,0>>, <<4,2,1>>, <<0,0,0>>, <<1,3,3>>}
PropsAll   == {<<a,b,c>> : a \in 0..8, b \in 0..4, c \in 0..4}
PropsOne   == {<<3,0,2>>}

\* ---- invariants ----
IndexBounds == \A j \in 1..Len(dec) : InBounds(dec[j], pr[1], pr[2])
StateRange  == cs.st \in 0..11 /\ \A j \in 1..4 : cs.rep[j] >= 0
\* every symbol's decision list starts with the is-match bit of the state before it
\* and the state automaton only moves along the format's table (checked on the last step)
AutomatonOK == cs.st \in {0,1,2,3,4,5,6} => (prog = <<>> \/ prog[Len(prog)].k \in {"lit", "eos", "eosn"})

\* ---- export ----
Emit == done => PrintT(<<"PROG", ToJson([lc |-> pr[1], lp |-> pr[2], pb |-> pr[3], prog |-> prog,
            dec |-> [j \in 1..Len(dec) |-> <<dec[j].t, dec[j].i[1], dec[j].i[2], dec[j].b>>],
            out |-> cs.out])>>)
====

---- MODULE Trace_Io ----
(***************************************************************************)
(* Trace validation for IoFaults: the call log of the harness's sink and    *)
(* source wrappers around a real lzma-rs API call (one run = Start ... Ret) *)
(* is replayed through the actions of IoFaults; Contract is checked as an   *)
(* invariant after every event, NoCallAfterFailure is the shape tier.       *)
(***************************************************************************)
EXTENDS IoFaults, Json, IOUtils
Rec == ndJsonDeserialize(IOEnv.TRACE)
VARIABLE l
tvars == <<vars, l>>
TInit == l = 1 /\ E = 0 /\ mustFlush = FALSE /\ pos = 0 /\ flushedAt = -1 /\ faults = 0 /\ bad = FALSE /\ after = 0 /\ ret = "none"
IsEv(e) == l <= Len(Rec) /\ Rec[l].ev = e /\ l' = l + 1
TStart == IsEv("S") /\ Start(Rec[l].e, Rec[l].mf)
TWrite == IsEv("W") /\ SinkWrite(Rec[l].len, Rec[l].r, Rec[l].good)
TFlush == IsEv("F") /\ SinkFlush(Rec[l].ok)
TRead  == IsEv("R") /\ SrcRead(Rec[l].ok)
TRet   == IsEv("Ret") /\ Return(Rec[l].v)
TNext == TStart \/ TWrite \/ TFlush \/ TRead \/ TRet
TSpec == TInit /\ [][TNext]_tvars
\* the run id of the current line, for error reports
ContractAt == Contract \/ (PrintT(<<"CONTRACT-VIOLATED at line", l - 1, Rec[l - 1]>>) /\ FALSE)
ShapeAt == NoCallAfterFailure
Accepted ==
  LET d == TLCGet("stats").diameter IN
  IF d - 1 = Len(Rec) THEN PrintT(<<"TRACE-ACCEPTED", Len(Rec)>>)
  ELSE PrintT(<<"TRACE-REJECTED at line", d, Rec[d]>>) /\ FALSE
====

---- MODULE Stream ----
(***************************************************************************)
(* The incremental decoder of lzma-rs (decode/stream.rs `Stream::write`,    *)
(* `finish` + decode/lzma.rs `process_mode` in Partial/Finish mode), at the *)
(* granularity "one public call = one action", with the decoder loop        *)
(* transcribed branch by branch as the recursive operator Proc.             *)
(*                                                                         *)
(* What is abstracted: the content of the compressed stream.  A stream is   *)
(* described by its SHAPE `sd`: header length, and for every symbol the     *)
(* reference decoder finds in it: how many input bytes it consumes (number  *)
(* of range-coder normalisations), how many output bytes it produces,       *)
(* whether committing it fails ("errReal": bad distance / memory limit /   *)
(* the SINK refusing the window that the symbol's output completes - a     *)
(* write that fails because the sink failed latches the object like any    *)
(* other failed write),                                                    *)
(* fails even in the dry run ("errBoth": matched literal without source),   *)
(* and whether the coder is clean (code = 0) after it.  Everything the      *)
(* streaming decoder does - header staging in `tmp`, dry runs, stashing in  *)
(* the partial input buffer, commits through a temporary reader, latching - *)
(* is a function of the shape and of the sizes of the write calls.          *)
(*                                                                         *)
(* Properties: EqOneShot (C05), Lag / Progress (C15), Latch (C16),          *)
(* buffer bounds (C07).                                                     *)
(***************************************************************************)
EXTENDS Naturals, Integers, Sequences, TLC

CONSTANTS Pre,      \* range coder preamble bytes (5)
          TmpMax,   \* MAX_TMP_LEN of stream.rs (18)
          MaxReq    \* MAX_REQUIRED_INPUT of lzma.rs (20)

VARIABLE sd   \* shape of the stream being decoded (see above)
\* sd = [hdr, hdrErr, sym, z0, size, total, inc]
\*   hdr    header length (13 or 5; scaled in model checking)
\*   hdrErr TRUE iff the properties byte is invalid (>= 225)
\*   sym    Seq of [c |-> bytes consumed, o |-> bytes produced, k |-> "ok"|"eos"|"errReal"|"errBoth",
\*                   z |-> code = 0 after it, cb |-> cumulative bytes, co |-> cumulative output]
\*   z0     code = 0 right after the preamble
\*   size   uncompressed size in effect, -1 = none
\*   total  total number of bytes the caller has for us
\*   inc    options.allow_incomplete

Inf == 1000000
N == Len(sd.sym)
CostOf(i) == IF i <= N THEN sd.sym[i].c ELSE Inf          \* beyond the last decodable symbol: input ran out
KindOf(i) == IF i >= 1 /\ i <= N THEN sd.sym[i].k ELSE "ok"
OutAfter(i) == IF i = 0 THEN 0 ELSE sd.sym[i].co
BytesAfter(i) == IF i = 0 THEN 0 ELSE sd.sym[i].cb
CodeZero(i) == IF i = 0 THEN sd.z0 ELSE sd.sym[i].z
Min(a, b) == IF a < b THEN a ELSE b

\* try_process_next(buf of n bytes) fails
DryFails(i, n) == CostOf(i) > n \/ KindOf(i) = "errBoth"
\* process_next on a reader holding n bytes fails
RealFails(i, n) == CostOf(i) > n \/ KindOf(i) \in {"errReal", "errBoth"}

(***************************************************************************)
(* One run of DecoderState::process_mode.                                  *)
(*   s = [sym, pl, rd, res]  sym = symbols committed, pl = bytes in         *)
(*   partial_input_buf, rd = bytes left in the reader of this call,         *)
(*   res = "run" | "ok" | "err"                                             *)
(***************************************************************************)
RECURSIVE Proc(_, _)
Proc(mode, s) ==
  IF s.res # "run" THEN s
  \* ---- loop head ----
  ELSE IF sd.size # -1 /\ OutAfter(s.sym) >= sd.size THEN
       \* break; final check only in Finish mode
       IF mode = "Finish" /\ OutAfter(s.sym) # sd.size THEN [s EXCEPT !.res = "err"] ELSE [s EXCEPT !.res = "ok"]
  ELSE IF sd.size = -1 /\ s.pl = 0 /\ s.rd = 0 /\ (mode = "Partial" \/ CodeZero(s.sym)) THEN [s EXCEPT !.res = "ok"]
  \* ---- partial_input_buf non-empty: top it up, dry run, commit through a temporary reader ----
  ELSE IF s.pl > 0 THEN
     LET take == Min(MaxReq - s.pl, s.rd)
         pl2  == s.pl + take
         rd2  == s.rd - take
         i    == s.sym + 1
     IN IF mode = "Partial" /\ pl2 < MaxReq /\ DryFails(i, pl2)
        THEN [s EXCEPT !.pl = pl2, !.rd = rd2, !.res = "ok"]            \* need more data: return Ok(())
        ELSE IF RealFails(i, pl2) THEN [s EXCEPT !.pl = pl2, !.rd = rd2, !.res = "err"]
        ELSE IF KindOf(i) = "eos"
             THEN IF CodeZero(i) /\ pl2 - CostOf(i) = 0       \* is_finished_ok() on the TEMPORARY reader
                  THEN [s EXCEPT !.sym = i, !.pl = 0, !.rd = rd2,
                                 !.res = IF mode = "Finish" /\ sd.size # -1 /\ OutAfter(i) # sd.size THEN "err" ELSE "ok"]
                  ELSE [s EXCEPT !.res = "err"]
             ELSE Proc(mode, [s EXCEPT !.sym = i, !.pl = pl2 - CostOf(i), !.rd = rd2])
  \* ---- partial_input_buf empty: work directly on the reader ----
  ELSE
     LET i == s.sym + 1 IN
     IF mode = "Partial" /\ s.rd < MaxReq /\ DryFails(i, s.rd)
     THEN [s EXCEPT !.pl = s.rd, !.rd = 0, !.res = "ok"]               \* stash what is left, return Ok(())
     ELSE IF RealFails(i, s.rd) THEN [s EXCEPT !.res = "err"]
     ELSE IF KindOf(i) = "eos"
          THEN IF CodeZero(i) /\ s.rd - CostOf(i) = 0
               THEN [s EXCEPT !.sym = i, !.rd = 0,
                              !.res = IF mode = "Finish" /\ sd.size # -1 /\ OutAfter(i) # sd.size THEN "err" ELSE "ok"]
               ELSE [s EXCEPT !.res = "err"]
          ELSE Proc(mode, [s EXCEPT !.sym = i, !.rd = @ - CostOf(i)])

P0(sy, p, r) == [sym |-> sy, pl |-> p, rd |-> r, res |-> "run"]

(***************************************************************************)
(* The object.                                                             *)
(***************************************************************************)
VARIABLES phase,    \* "Header" | "Data" | "None" (latched after an error)
          tmp,      \* bytes staged in Stream::tmp
          pl,       \* bytes in DecoderState::partial_input_buf
          sym,      \* symbols committed
          offered,  \* bytes accepted by write() so far
          lastRet,  \* return value of the last write: n >= 0, or -1 for Err
          lastN,    \* size of the last write
          verdict   \* "none" until finish() is called, then "ok" | "err"
svars == <<phase, tmp, pl, sym, offered, lastRet, lastN, verdict>>
vars == <<sd, svars>>

SInit == phase = "Header" /\ tmp = 0 /\ pl = 0 /\ sym = 0 /\ offered = 0 /\ lastRet = 0 /\ lastN = 0 /\ verdict = "none"

HL == sd.hdr + Pre      \* bytes needed to leave the Header phase

\* Outcome of trying to parse header + preamble from the first k bytes of the stream:
\* the properties byte is examined first (invalid => fatal error even if more bytes are missing).
ParseHdr(k) == IF k >= 1 /\ sd.hdrErr THEN "fatal" ELSE IF k >= HL THEN "data" ELSE "short"

Write(n) ==
  /\ sd' = sd /\ verdict = "none" /\ n >= 0 /\ offered + n <= sd.total /\ lastN' = n
  /\ \/ /\ phase = "None"                                         \* latched: consumes nothing
        /\ lastRet' = 0 /\ UNCHANGED <<phase, tmp, pl, sym, offered, verdict>>
     \/ /\ phase = "Header"
        /\ IF tmp > 0
           THEN LET take == Min(TmpMax - tmp, n)
                    t2   == tmp + take
                    r    == ParseHdr(t2)
                IN IF r = "fatal"
                   THEN phase' = "None" /\ lastRet' = -1 /\ tmp' = t2 /\ UNCHANGED offered
                   ELSE /\ lastRet' = take /\ offered' = offered + take
                        /\ IF r = "data" THEN phase' = "Data" /\ tmp' = t2 - HL      \* leftover moved to the front
                                         ELSE phase' = "Header" /\ tmp' = t2
           ELSE LET r == ParseHdr(n) IN
                IF r = "fatal" THEN phase' = "None" /\ lastRet' = -1 /\ tmp' = 0 /\ UNCHANGED offered
                ELSE IF r = "data"
                     THEN phase' = "Data" /\ tmp' = 0 /\ lastRet' = HL /\ offered' = offered + HL   \* early return
                     ELSE phase' = "Header" /\ tmp' = Min(n, TmpMax) /\ lastRet' = Min(n, TmpMax) /\ offered' = offered + Min(n, TmpMax)
        /\ UNCHANGED <<pl, sym, verdict>>
     \/ /\ phase = "Data"
        /\ LET s1 == IF tmp > 0 THEN Proc("Partial", P0(sym, pl, tmp))
                               ELSE [sym |-> sym, pl |-> pl, rd |-> 0, res |-> "ok"]
           IN IF s1.res = "err"
              THEN phase' = "None" /\ lastRet' = -1 /\ tmp' = tmp /\ pl' = s1.pl /\ sym' = s1.sym /\ UNCHANGED <<offered, verdict>>
              ELSE LET s2 == Proc("Partial", P0(s1.sym, s1.pl, n)) IN
                   IF s2.res = "err"
                   THEN phase' = "None" /\ lastRet' = -1 /\ tmp' = 0 /\ pl' = s2.pl /\ sym' = s2.sym /\ UNCHANGED <<offered, verdict>>
                   ELSE /\ phase' = "Data" /\ tmp' = 0 /\ pl' = s2.pl /\ sym' = s2.sym
                        /\ lastRet' = n - s2.rd /\ offered' = offered + (n - s2.rd) /\ UNCHANGED verdict

\* Stream::flush (Stream is an io::Write): passes the flush on to the sink in the data phase, does nothing otherwise;
\* in particular it neither decodes nor hands the pending window over - nothing a later finish() has to deliver
\* may depend on it.  (Never fails by itself; the sink's own flush errors are C12's subject.)
Flush == verdict = "none" /\ UNCHANGED vars

Finish ==
  /\ sd' = sd /\ verdict = "none"
  /\ \/ /\ phase = "None" /\ verdict' = "err" /\ UNCHANGED <<phase, tmp, pl, sym, offered, lastRet, lastN>>
     \/ /\ phase = "Header" /\ verdict' = (IF tmp > 0 THEN "err" ELSE "ok")
        /\ UNCHANGED <<phase, tmp, pl, sym, offered, lastRet, lastN>>
     \/ /\ phase = "Data"
        /\ IF sd.inc
           THEN verdict' = "ok" /\ UNCHANGED <<sym, pl>>
           ELSE LET s == Proc("Finish", P0(sym, pl, tmp)) IN
                /\ sym' = s.sym /\ pl' = s.pl
                /\ verdict' = IF s.res = "err" THEN "err" ELSE "ok"
        /\ UNCHANGED <<phase, tmp, offered, lastRet, lastN>>

(***************************************************************************)
(* The one-shot decoder on the same bytes (lzma_decompress_with_options).   *)
(***************************************************************************)
OneShot ==
  IF ParseHdr(sd.total) = "fatal" THEN [v |-> "err", sym |-> 0]
  ELSE IF sd.total < HL THEN [v |-> "err", sym |-> 0]
  ELSE LET s == Proc("Finish", P0(0, 0, sd.total - HL)) IN [v |-> s.res, sym |-> s.sym]

\* the caller has nothing more to give, or giving more is pointless
SizeDone == sd.size # -1 /\ phase = "Data" /\ OutAfter(sym) >= sd.size
Stuck == lastRet = -1 \/ phase = "None" \/ SizeDone
AllOffered == offered = sd.total

\* ---- properties ----
\* C05: once everything was offered (or the stream latched / reached its size) finish gives the
\* one-shot verdict and, on success, the same symbols (hence the same bytes).  Zero input is the
\* documented exception.
EqOneShot ==
  (verdict # "none" /\ (AllOffered \/ Stuck) /\ ~sd.inc) =>
     IF sd.total = 0 THEN verdict = "ok" /\ sym = 0
     ELSE /\ verdict = OneShot.v
          /\ (verdict = "ok" => OutAfter(sym) = OutAfter(OneShot.sym))
\* a write that accepts nothing although decoding is still in progress would spin a write_all caller
NoZeroProgress == (verdict = "none" /\ lastRet = 0 /\ lastN > 0) => (phase = "None" \/ SizeDone)
\* C15: bytes accepted but not yet turned into committed symbols are bounded, and whatever is
\* decodable from the accepted bytes has been committed (Data phase, nothing staged)
Lag == (phase = "Data" /\ verdict = "none" /\ lastRet >= 0 /\ ~SizeDone /\ KindOf(sym) # "eos") =>
          /\ (offered - HL) - BytesAfter(sym) = pl + tmp
          /\ pl <= MaxReq - 1 /\ tmp <= TmpMax - HL
Progress == (phase = "Data" /\ tmp = 0 /\ verdict = "none" /\ lastRet >= 0 /\ ~SizeDone /\ pl < MaxReq)
               => (DryFails(sym + 1, pl) \/ pl = 0)
BufBounds == tmp \in 0..TmpMax /\ pl \in 0..MaxReq
\* C16: action property - once latched nothing moves any more
Latch == [][phase = "None" => (phase' = "None" /\ sym' = sym /\ offered' = offered /\ lastRet' \in {0, lastRet})]_vars
\* the committed output only grows
Monotone == [][sym' >= sym /\ offered' >= offered]_vars
====

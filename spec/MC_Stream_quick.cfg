SPECIFICATION Spec
CONSTANTS
  Pre = 2
  TmpMax = 4
  MaxReq = 3
  MaxSyms = 2
  MaxCost = 3
  Hdrs = {1, 2}
INVARIANTS EqOneShot NoZeroProgress Lag Progress BufBounds
PROPERTIES Latch Monotone
CHECK_DEADLOCK FALSE

SPECIFICATION TSpec
CONSTANTS
  Pre = 5
  TmpMax = 18
  MaxReq = 20
POSTCONDITION Accepted
CHECK_DEADLOCK FALSE

---- MODULE MC_RawReuse ----
EXTENDS RawReuse
CONSTANTS MaxOps
SizesMC == {NoSize, 5}
Init == \E k \in {"lzma", "lzma2"}, p \in PropsSet, z \in Sizes :
          /\ kind = k /\ ctor = [props |-> p, size |-> z]
          /\ dirty = {} /\ st = 0 /\ repz = TRUE /\ pl = 0
          /\ props = (IF k = "lzma2" THEN 0 ELSE p) /\ rows = Rows(IF k = "lzma2" THEN 0 ELSE p)
          /\ size = (IF k = "lzma2" THEN NoSize ELSE z)
          /\ lastop = "new" /\ hist = <<"new">>
Next == /\ Len(hist) <= MaxOps
        /\ \/ Decompress
           \/ (\E p \in PropsSet, z \in Sizes : L2FirstChunk(p, z))
           \/ Reset(-1)
           \/ (kind = "lzma" /\ \E z \in Sizes : Reset(z))
Spec == Init /\ [][Next]_vars
view == <<kind, ctor, dirty, st, repz, props, rows, size, pl, lastop, Len(hist)>>
====

SPECIFICATION TSpec
CONSTANTS
  A0 = 9000000
  K = 8
INVARIANT BoundedAt
POSTCONDITION Accepted
CHECK_DEADLOCK FALSE

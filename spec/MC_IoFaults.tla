---- MODULE MC_IoFaults ----
(***************************************************************************)
(* A reference implementation of the contract ("write_all every piece, then *)
(* flush, propagate the first error") driven against every fault script:    *)
(* k-th call fails, Ok(0), arbitrary short writes, failing flush.  Shows    *)
(* the contract of IoFaults is satisfiable and exactly characterises the    *)
(* std write_all loop; the deliberately wrong variants (Buggy) violate it.  *)
(***************************************************************************)
EXTENDS IoFaults, FiniteSets, Json
CONSTANTS Pieces,    \* set of piece-length sequences the writer emits, e.g. {<<2,1>>, <<3>>}
          Buggy      \* "none" | "write-once" | "ignore-flush" | "swallow"
VARIABLES plan, pc, off, failAt, calls,
          script    \* history: the sink's answers in call order (write: bytes accepted, 0, -1; flush: 100 ok / -100 failed)
mvars == <<vars, plan, pc, off, failAt, calls, script>>

RECURSIVE Sum(_, _)
Sum(q, i) == IF i = 0 THEN 0 ELSE Sum(q, i - 1) + q[i]

Init == /\ plan \in Pieces /\ pc = 1 /\ off = 0 /\ calls = 0 /\ script = <<>>
        /\ failAt \in 0..8          \* 0 = never
        /\ E = Sum(plan, Len(plan)) /\ mustFlush = TRUE /\ pos = 0 /\ flushedAt = -1 /\ faults = 0 /\ bad = FALSE /\ after = 0 /\ ret = "none"

\* one underlying write call of the write_all loop for piece pc
DoWrite ==
  /\ ret = "none" /\ pc <= Len(plan)
  /\ calls' = calls + 1
  /\ LET len == plan[pc] - off IN
     \E r \in (IF calls + 1 = failAt THEN {-1, 0} ELSE 1..len) :
        /\ SinkWrite(len, r, TRUE)
        /\ script' = Append(script, r)
        /\ IF r <= 0
           THEN IF Buggy = "swallow" THEN pc' = pc + 1 /\ off' = 0 ELSE pc' = Len(plan) + 2 /\ off' = 0     \* propagate: jump to Return(err)
           ELSE IF off + r = plan[pc] \/ Buggy = "write-once" THEN pc' = pc + 1 /\ off' = 0 ELSE pc' = pc /\ off' = off + r
  /\ UNCHANGED <<plan, failAt>>
DoFlush ==
  /\ ret = "none" /\ pc = Len(plan) + 1
  /\ calls' = calls + 1
  /\ LET ok == calls + 1 # failAt IN
     /\ SinkFlush(ok)
     /\ script' = Append(script, IF ok THEN 100 ELSE -100)
     /\ pc' = IF ok \/ Buggy = "ignore-flush" THEN Len(plan) + 3 ELSE Len(plan) + 2
  /\ UNCHANGED <<plan, off, failAt>>
DoReturn ==
  /\ ret = "none" /\ pc >= Len(plan) + 2
  /\ Return(IF pc = Len(plan) + 2 THEN "err" ELSE "ok")
  /\ UNCHANGED <<plan, pc, off, failAt, calls, script>>
Next == DoWrite \/ DoFlush \/ DoReturn \/ (ret # "none" /\ UNCHANGED mvars)
Spec == Init /\ [][Next]_mvars
\* every finished behaviour of the reference pipeline = one fault script for the real entry points
Emit == ret # "none" => PrintT(<<"IO", ToJson([script |-> script, plan |-> plan, ret |-> ret])>>)
PiecesQuick == {<<1>>, <<3>>, <<2, 1>>, <<1, 2, 1>>, <<>>, <<4>>, <<3, 2>>, <<2, 2, 1>>}
====

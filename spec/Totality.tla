---- MODULE Totality ----
(***************************************************************************)
(* C07 as a specification of every decoding entry point seen from outside:  *)
(* a call takes some input and                                              *)
(*   - returns Ok or Err (a panic, an abort or a hang is no behaviour of    *)
(*     this specification: no action produces it),                         *)
(*   - having consumed c <= |input| bytes and produced p bytes,             *)
(*   - with peak heap growth bounded by a constant part A0 (probability     *)
(*     tables: 0x300 * 2^(lc+lp) two-byte entries for the ANNOUNCED lc/lp - *)
(*     at most 6.3 MB - plus fixed tables and buffers) and a part           *)
(*     proportional to the bytes actually consumed and produced:            *)
(*     a header announcing a huge dictionary or size costs nothing.         *)
(* The structured part of C07 (indices bounded by construction, no          *)
(* arithmetic leaving its type, termination) is carried by the invariants   *)
(* IndexBounds (MC_LzmaCoding, all 225 settings), NoWrap (MC_Xz),           *)
(* CursorRange/BufBound/Terminates (MC_LzmaDecoder), BufBounds (MC_Stream). *)
(***************************************************************************)
EXTENDS Naturals, Integers, Sequences, TLC
CONSTANTS A0,    \* constant part of the allowance, bytes
          K      \* allowance per byte consumed or produced
VARIABLES api, inLen, outcome, consumed, produced, peak
vars == <<api, inLen, outcome, consumed, produced, peak>>
Apis == {"lzma", "lzma2", "xz", "raw-lzma", "raw-lzma2", "stream"}
Call(a, n, o, c, p, pk) ==
  /\ a \in Apis /\ o \in {"ok", "err"}
  /\ c >= 0 /\ c <= n /\ p >= 0
  /\ api' = a /\ inLen' = n /\ outcome' = o /\ consumed' = c /\ produced' = p /\ peak' = pk
\* the allowance is computed with the whole input (consumed <= input) so that it stays sound for
\* entry points whose exact consumption the harness cannot observe
Bounded == peak <= A0 + K * (inLen + produced)
====

SPECIFICATION Spec
INVARIANTS Emit
CHECK_DEADLOCK FALSE

SPECIFICATION TSpec
INVARIANT ContractAt
POSTCONDITION Accepted
CHECK_DEADLOCK FALSE

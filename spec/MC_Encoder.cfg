SPECIFICATION Spec
CONSTANTS
  ChunkMax = 3
  MaxLen = 7
INVARIANTS RT1 RT2 XZ ChunkCount LensAgree
CHECK_DEADLOCK FALSE

SPECIFICATION Spec
CONSTANTS
  MaxChunks = 3
  MaxProg = 1
  Lits = {1, 2}
  Dists = {1, 2, 4}
  Lens = {2, 3}
  Datas <- DatasQuick
INVARIANTS Refines Verdict SinkPrefix FramingRejected Emit
CHECK_DEADLOCK FALSE

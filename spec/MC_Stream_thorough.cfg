SPECIFICATION Spec
CONSTANTS
  Pre = 2
  TmpMax = 5
  MaxReq = 4
  MaxSyms = 3
  MaxCost = 4
  Hdrs = {1, 3}
INVARIANTS EqOneShot NoZeroProgress Lag Progress BufBounds
PROPERTIES Latch Monotone
CHECK_DEADLOCK FALSE

SPECIFICATION Spec
INVARIANTS Props1 Emit
CHECK_DEADLOCK FALSE

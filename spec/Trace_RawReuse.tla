---- MODULE Trace_RawReuse ----
(***************************************************************************)
(* Trace validation for RawReuse: the harness drives real LzmaDecoder /     *)
(* Lzma2Decoder objects through histories of decompress (valid, corrupt,    *)
(* truncated, property-changing) and reset calls and logs the cfg-gated     *)
(* projection hook after every call.  Each logged projection must be a      *)
(* state the specification allows - in particular, after `reset` it must    *)
(* be exactly Fresh (which localises a forgotten field).                    *)
(***************************************************************************)
EXTENDS RawReuse, Json, IOUtils
Rec == ndJsonDeserialize(IOEnv.TRACE)
VARIABLE l
tvars == <<vars, l>>
TInit == /\ l = 1 /\ kind = "lzma" /\ ctor = [props |-> 0, size |-> 0] /\ dirty = {} /\ st = 0 /\ repz = TRUE
         /\ props = 0 /\ rows = 1 /\ size = 0 /\ pl = 0 /\ lastop = "init" /\ hist = <<>>
IsEv(e) == l <= Len(Rec) /\ Rec[l].ev = e /\ l' = l + 1
DirtySet(r) == {g \in Groups : r.dirty[g] > 0}
Matches(r) == /\ dirty' = DirtySet(r) /\ st' = r.st /\ repz' = r.repz /\ props' = r.props /\ rows' = r.rows
              /\ size' = r.size /\ pl' = r.pl
TNew == IsEv("new") /\ New(Rec[l].kind, [props |-> Rec[l].cprops, size |-> Rec[l].csize]) /\ Matches(Rec[l])
\* after a decode anything used is allowed: only the frame (kind, ctor) is checked
TDec == /\ IsEv("decompress")
        /\ dirty' = DirtySet(Rec[l]) /\ st' = Rec[l].st /\ repz' = Rec[l].repz /\ props' = Rec[l].props /\ rows' = Rec[l].rows
        /\ size' = Rec[l].size /\ pl' = Rec[l].pl
        /\ (kind = "lzma" => (props' = props /\ rows' = rows /\ size' = size))
        /\ lastop' = "decompress" /\ hist' = <<>> /\ UNCHANGED <<kind, ctor>>
TReset == IsEv("reset") /\ Reset(Rec[l].newsize) /\ Matches(Rec[l])
TNext == TNew \/ TDec \/ TReset
TSpec == TInit /\ [][TNext]_tvars
Accepted ==
  LET d == TLCGet("stats").diameter IN
  IF d - 1 = Len(Rec) THEN PrintT(<<"TRACE-ACCEPTED", Len(Rec)>>)
  ELSE PrintT(<<"TRACE-REJECTED at line", d, Rec[d]>>) /\ FALSE
====

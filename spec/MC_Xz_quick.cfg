SPECIFICATION Spec
CONSTANTS
  CmpBits = 0
  BwBits = 32
  Lib <- LibDef
  MaxBlocks = 2
  Checks = {0, 1, 4, 10, 2, 15}
  Pids = {1, 3, 5, 8, 9}
  Pids2 = {2, 5}
INVARIANTS PadLemma AcceptsWellFormed AcceptImpliesIntegrity UnsupportedRefused SinkOnlyVerified MutationsAreCaught NoWrap Emit
CHECK_DEADLOCK FALSE

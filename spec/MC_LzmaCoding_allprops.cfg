SPECIFICATION Spec
CONSTANTS
  MaxSyms = 2
  ExactLen = FALSE
  PropSet <- PropsAll
  Lits = {0, 255}
  Dists = {1, 2}
  Lens = {2, 10, 273}
  RepLens = {2, 18}
INVARIANTS IndexBounds StateRange AutomatonOK
CHECK_DEADLOCK FALSE

---- MODULE IoFaults ----
(***************************************************************************)
(* The I/O contract of every encoder and decoder of lzma-rs towards its     *)
(* sink (io::Write) and source (io::BufRead), as a state machine over the   *)
(* individual calls the implementation makes:                               *)
(*   SinkWrite(len, ret)  one call of Write::write: `len` bytes offered,    *)
(*                        ret = bytes accepted (0..len) or -1 for Err       *)
(*   SinkFlush(ok)        one call of Write::flush                          *)
(*   SrcRead(ok)          one call of Read::read / BufRead::fill_buf        *)
(*   Return(v)            the API call returns Ok / Err                     *)
(* `E` is the length of the correct output, `pos` the number of bytes the   *)
(* sink has accepted.  Every offered buffer must be exactly the correct     *)
(* output from `pos` on (the harness sink compares and logs `good`), which  *)
(* makes "what the sink accepted is a prefix of the correct output" an      *)
(* inductive fact; write_all is the loop it is in std: a short write is     *)
(* followed by a write of the remainder, Ok(0) ends in an error.            *)
(*                                                                         *)
(* Properties (C12): ErrIffFault, PrefixAlways, CompleteOnOk, FlushOnOk;    *)
(* shape tier: NoCallAfterFailure.                                          *)
(***************************************************************************)
EXTENDS Naturals, Integers, Sequences, TLC

VARIABLES E,        \* length of the correct output of this run
          mustFlush,\* this API promises to flush the sink on success (LZMA, LZMA2 decoders, Stream::finish)
          pos,      \* bytes accepted by the sink so far
          flushedAt,\* pos at the last successful flush (-1: never)
          faults,   \* 1000 per call (sink or source) that returned an error + 1 per sink write that answered Ok(0) to a
                    \* non-empty buffer (not an error value: std's write_all makes it one, a writer that retries need not)
          bad,      \* sticky: some offered buffer was not the correct continuation of the output
          after,    \* calls made after the first failed call (shape tier)
          ret       \* "none" | "ok" | "err"
vars == <<E, mustFlush, pos, flushedAt, faults, bad, after, ret>>

Start(e, mf) == E' = e /\ mustFlush' = mf /\ pos' = 0 /\ flushedAt' = -1 /\ faults' = 0 /\ bad' = FALSE /\ after' = 0 /\ ret' = "none"

SinkWrite(len, r, good) ==
  /\ ret = "none" /\ len >= 0 /\ r >= -1 /\ r <= len
  /\ pos' = IF r > 0 THEN pos + r ELSE pos
  /\ bad' = (bad \/ ~good \/ pos + len > E)
  /\ faults' = IF r = -1 THEN faults + 1000 ELSE IF r = 0 /\ len > 0 THEN faults + 1 ELSE faults
  /\ after' = IF faults > 0 THEN after + 1 ELSE after
  /\ UNCHANGED <<E, mustFlush, flushedAt, ret>>

SinkFlush(ok) ==
  /\ ret = "none"
  /\ flushedAt' = IF ok THEN pos ELSE flushedAt
  /\ faults' = IF ok THEN faults ELSE faults + 1000
  /\ after' = IF faults > 0 THEN after + 1 ELSE after
  /\ UNCHANGED <<E, mustFlush, pos, bad, ret>>

SrcRead(ok) ==
  /\ ret = "none"
  /\ faults' = IF ok THEN faults ELSE faults + 1000
  /\ after' = IF faults > 0 THEN after + 1 ELSE after
  /\ UNCHANGED <<E, mustFlush, pos, flushedAt, bad, ret>>

Return(v) ==
  /\ ret = "none" /\ ret' = v
  /\ UNCHANGED <<E, mustFlush, pos, flushedAt, faults, bad, after>>

\* ---- contract ----
\* success is impossible after a call that returned an error; an error needs a failed call or an Ok(0) answer
ErrIffFault  == /\ (ret = "ok" => faults < 1000)
                /\ (ret = "err" => faults > 0)
PrefixAlways == ~bad /\ pos <= E
CompleteOnOk == ret = "ok" => pos = E
FlushOnOk    == (ret = "ok" /\ mustFlush) => flushedAt = E
Contract     == ErrIffFault /\ PrefixAlways /\ CompleteOnOk /\ FlushOnOk
\* ---- shape ----
NoCallAfterFailure == after = 0
====

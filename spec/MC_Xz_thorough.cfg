SPECIFICATION Spec
CONSTANTS
  CmpBits = 0
  BwBits = 32
  Lib <- LibDef
  MaxBlocks = 2
  Checks = {0, 1, 2, 3, 4, 5, 6, 7, 8, 9, 10, 11, 12, 13, 14, 15}
  Pids = {1, 2, 3, 4, 5, 6, 7, 8, 9}
  Pids2 = {1, 2, 3, 4, 5, 7}
INVARIANTS PadLemma AcceptsWellFormed AcceptImpliesIntegrity UnsupportedRefused SinkOnlyVerified MutationsAreCaught NoWrap Emit
CHECK_DEADLOCK FALSE

SPECIFICATION TSpec
CONSTANTS
  Groups = {"lit", "posslot", "align", "spec", "ismatch", "isrep", "rep0long", "len", "replen"}
  PropsSet = {0}
  Sizes = {0}
  States = {0}
INVARIANT ResetIsFresh
POSTCONDITION Accepted
CHECK_DEADLOCK FALSE

---- MODULE Trace_Totality ----
EXTENDS Totality, Json, IOUtils
Rec == ndJsonDeserialize(IOEnv.TRACE)
VARIABLE l
TInit == l = 1 /\ api = "lzma" /\ inLen = 0 /\ outcome = "ok" /\ consumed = 0 /\ produced = 0 /\ peak = 0
TCall == /\ l <= Len(Rec) /\ l' = l + 1
         /\ Call(Rec[l].api, Rec[l].n, Rec[l].o, Rec[l].c, Rec[l].p, Rec[l].peak)
TSpec == TInit /\ [][TCall]_<<vars, l>>
BoundedAt == Bounded \/ (PrintT(<<"ALLOC-BOUND-VIOLATED at line", l - 1, Rec[l - 1]>>) /\ FALSE)
Accepted ==
  LET d == TLCGet("stats").diameter IN
  IF d - 1 = Len(Rec) THEN PrintT(<<"TRACE-ACCEPTED", Len(Rec)>>)
  ELSE PrintT(<<"TRACE-REJECTED at line", d, Rec[d]>>) /\ FALSE
====

SPECIFICATION TSpec
CONSTANTS
  ChunkMax = 65536
POSTCONDITION Accepted
CHECK_DEADLOCK FALSE

SPECIFICATION Spec
CONSTANTS
  Groups = {"lit", "dist", "len"}
  States = {0, 7, 11}
  PropsSet = {0, 302, 21}
  Sizes <- SizesMC
  MaxOps = 4
INVARIANT ResetIsFresh
VIEW view
CHECK_DEADLOCK FALSE

SPECIFICATION Spec
CONSTANTS
  Groups = {"lit", "dist", "len"}
  States = {0, 7, 11}
  PropsSet = {0, 302, 21}
  Sizes <- SizesMC
  MaxOps = 4
INVARIANTS ResetIsFresh WellFormedStartIsFresh
VIEW view
CHECK_DEADLOCK FALSE

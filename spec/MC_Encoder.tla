---- MODULE MC_Encoder ----
(***************************************************************************)
(* All inputs of length 0..MaxLen over a 2-letter alphabet x all options x  *)
(* all fragmentations of the source (compositions of the length).          *)
(***************************************************************************)
EXTENDS Encoder, Json
CONSTANTS MaxLen
VARIABLES input, reads, opt
vars == <<input, reads, opt>>
RECURSIVE Seqs(_)
Seqs(n) == IF n = 0 THEN {<<>>} ELSE LET P == Seqs(n - 1) IN P \cup {Append(q, x) : q \in {r \in P : Len(r) = n - 1}, x \in {0, 255}}
RECURSIVE Comps(_)
Comps(n) == IF n = 0 THEN {<<>>} ELSE UNION {{<<k>> \o c : c \in Comps(n - k)} : k \in 1..n}
Init == /\ input \in Seqs(MaxLen) /\ opt \in {"marker", "size", "skip"}
        /\ reads \in Comps(Len(input))
Next == UNCHANGED vars
Spec == Init /\ [][Next]_vars
RT1 == RoundTripLzma(input, opt) /\ LitOnly(input, opt)
RT2 == RoundTripLzma2(input, reads)
XZ  == XzArithmetic(input, reads)
LensAgree == ChunkLens(reads) = [i \in 1..Len(Lzma2Out(input, reads)) |-> Len(Lzma2Out(input, reads)[i].data)] /\ XzOutN(Len(input), reads) = XzOut(input, reads)
ChunkCount == Len(Lzma2Out(input, reads)) >= Len(reads)   \* at least one chunk per non-empty read (more when a read exceeds ChunkMax)
====

---- MODULE LzmaCoding ----
(***************************************************************************)
(* LZMA symbol coding: WHICH adaptive context every bit of every symbol     *)
(* uses, in which order, and the semantic effect of each symbol on the      *)
(* decoder-visible state (12-state automaton, 4 repeat distances, unbounded *)
(* history).  Written from the LZMA SDK specification, not from the Rust    *)
(* formulas.  The 32-bit range arithmetic is NOT here (DESIGN.md sect. 8):   *)
(* a decision list [t, i, b] drives a generic range encoder in the harness. *)
(*                                                                         *)
(* Bound to the code by                                                     *)
(*   - MC_LzmaCoding: TLC exports (program, decisions, output); the harness *)
(*     range-codes the decisions and lzma-rs must decode `output`;          *)
(*   - Trace_Lzma: symbol events recorded from lzma-rs are steps of Apply.  *)
(***************************************************************************)
EXTENDS Naturals, Integers, Sequences, TLC
\* ---------- format tables ----------
LitNext   == <<0,0,0,0,1,2,3,4,5,6,4,5>>   \* indexed by st+1
MatchNext(st) == IF st < 7 THEN 7 ELSE 10
RepNext(st)   == IF st < 7 THEN 8 ELSE 11
ShortNext(st) == IF st < 7 THEN 9 ELSE 11

Pow2(n) == 2^n
RECURSIVE Log2(_)
Log2(v) == IF v < 2 THEN 0 ELSE 1 + Log2(v \div 2)
PosSlot(d0) == IF d0 < 4 THEN d0 ELSE LET n == Log2(d0) IN 2*n + ((d0 \div Pow2(n-1)) % 2)

\* ---------- bit-tree decisions ----------
RECURSIVE TreeD(_,_,_,_,_)
\* MSB-first tree: remaining bits k, value v, current node m
TreeD(tbl, sub, k, v, m) ==
  IF k = 0 THEN <<>>
  ELSE LET b == (v \div Pow2(k-1)) % 2 IN <<[t |-> tbl, i |-> <<sub, m>>, b |-> b]>> \o TreeD(tbl, sub, k-1, v, 2*m + b)
RECURSIVE RevTreeD(_,_,_,_,_)
RevTreeD(tbl, sub, k, v, m) ==
  IF k = 0 THEN <<>>
  ELSE LET b == v % 2 IN <<[t |-> tbl, i |-> <<sub, m>>, b |-> b]>> \o RevTreeD(tbl, sub, k-1, v \div 2, 2*m + b)
RECURSIVE DirectD(_,_)
DirectD(k, v) == IF k = 0 THEN <<>> ELSE <<[t |-> "direct", i |-> <<0,0>>, b |-> (v \div Pow2(k-1)) % 2]>> \o DirectD(k-1, v)
One(tbl, sub, m, b) == <<[t |-> tbl, i |-> <<sub, m>>, b |-> b]>>

LenD(coder, ps, l) ==
  IF l < 8 THEN One(coder, 0, 0, 0) \o TreeD(coder \o ".low", ps, 3, l, 1)
  ELSE IF l < 16 THEN One(coder, 0, 0, 1) \o One(coder, 0, 1, 0) \o TreeD(coder \o ".mid", ps, 3, l - 8, 1)
  ELSE One(coder, 0, 0, 1) \o One(coder, 0, 1, 1) \o TreeD(coder \o ".high", 0, 8, l - 16, 1)

DistD(lenState, d0) ==
  LET slot == PosSlot(d0) IN
  TreeD("posslot", lenState, 6, slot, 1) \o
  (IF slot < 4 THEN <<>>
   ELSE LET nd == (slot \div 2) - 1
            base == (2 + (slot % 2)) * Pow2(nd)
            extra == d0 - base
        IN IF slot < 14 THEN RevTreeD("spec", slot, nd, extra, 1)
           ELSE DirectD(nd - 4, extra \div 16) \o RevTreeD("align", 0, 4, extra % 16, 1))
EosDistD == TreeD("posslot", 0, 6, 63, 1) \o DirectD(26, Pow2(26) - 1) \o RevTreeD("align", 0, 4, 15, 1)
\* the end marker is defined by its DISTANCE (2^32 - 1) alone: a marker may carry any length n in 2..273; its
\* position-slot tree is then chosen by the length like for any match ("eosn"; "eos" is the usual n = 2)
EosDistDn(n) == TreeD("posslot", (IF n - 2 < 3 THEN n - 2 ELSE 3), 6, 63, 1) \o DirectD(26, Pow2(26) - 1) \o RevTreeD("align", 0, 4, 15, 1)

RECURSIVE MLitD(_,_,_,_,_,_)
\* matched literal: k bits remain, node m, still matching flag
MLitD(ctx, k, byte, mbyte, m, matching) ==
  IF k = 0 THEN <<>>
  ELSE LET b  == (byte \div Pow2(k-1)) % 2
           mb == (mbyte \div Pow2(k-1)) % 2
           idx == IF matching THEN (1 + mb) * 256 + m ELSE m
       IN <<[t |-> "lit", i |-> <<ctx, idx>>, b |-> b]>> \o MLitD(ctx, k-1, byte, mbyte, 2*m + b, matching /\ (mb = b))

\* ---------- decoder-visible coding state ----------
\* cs = [st, rep (4-seq of d0), out (seq of bytes)]
InitCS == [st |-> 0, rep |-> <<0,0,0,0>>, out |-> <<>>]
PosState(cs, pb) == Len(cs.out) % Pow2(pb)
LitCtx(cs, lc, lp) == ((Len(cs.out) % Pow2(lp)) * Pow2(lc)) + ((IF cs.out = <<>> THEN 0 ELSE cs.out[Len(cs.out)]) \div Pow2(8 - lc))
RECURSIVE Copy(_,_,_)
Copy(o, dist, n) == IF n = 0 THEN o ELSE Copy(Append(o, o[Len(o) - dist + 1]), dist, n - 1)

\* symbols: [k |-> "lit", b], [k |-> "match", d (dist>=1), n (len>=2)], [k |-> "short"], [k |-> "rep", r (0..3), n], [k |-> "eos"], [k |-> "eosn", n (2..273)]
IsM(cs, pb, b) == One("ismatch", cs.st, PosState(cs, pb), b)
Decisions(cs, s, lc, lp, pb) ==
  LET ps == PosState(cs, pb) IN
  CASE s.k = "lit" ->
        IsM(cs, pb, 0) \o
        (IF cs.st >= 7 THEN MLitD(LitCtx(cs, lc, lp), 8, s.b, cs.out[Len(cs.out) - cs.rep[1]], 1, TRUE)
         ELSE TreeD("lit", LitCtx(cs, lc, lp), 8, s.b, 1))
    [] s.k = "match" -> IsM(cs, pb, 1) \o One("isrep", cs.st, 0, 0) \o LenD("len", ps, s.n - 2) \o DistD(IF s.n - 2 > 3 THEN 3 ELSE s.n - 2, s.d - 1)
    [] s.k = "short" -> IsM(cs, pb, 1) \o One("isrep", cs.st, 0, 1) \o One("isrepg0", cs.st, 0, 0) \o One("isrep0long", cs.st, ps, 0)
    [] s.k = "rep" -> IsM(cs, pb, 1) \o One("isrep", cs.st, 0, 1) \o
         (CASE s.r = 0 -> One("isrepg0", cs.st, 0, 0) \o One("isrep0long", cs.st, ps, 1)
            [] s.r = 1 -> One("isrepg0", cs.st, 0, 1) \o One("isrepg1", cs.st, 0, 0)
            [] s.r = 2 -> One("isrepg0", cs.st, 0, 1) \o One("isrepg1", cs.st, 0, 1) \o One("isrepg2", cs.st, 0, 0)
            [] s.r = 3 -> One("isrepg0", cs.st, 0, 1) \o One("isrepg1", cs.st, 0, 1) \o One("isrepg2", cs.st, 0, 1))
         \o LenD("replen", ps, s.n - 2)
    [] s.k = "eos" -> IsM(cs, pb, 1) \o One("isrep", cs.st, 0, 0) \o LenD("len", ps, 0) \o EosDistD
    [] s.k = "eosn" -> IsM(cs, pb, 1) \o One("isrep", cs.st, 0, 0) \o LenD("len", ps, s.n - 2) \o EosDistDn(s.n)

\* semantic effect (valid symbols only; validity = distances within produced output)
Valid(cs, s) ==
  CASE s.k = "lit" -> cs.st < 7 \/ cs.rep[1] + 1 <= Len(cs.out)
    [] s.k = "match" -> s.d <= Len(cs.out)
    [] s.k = "short" -> cs.rep[1] + 1 <= Len(cs.out)
    [] s.k = "rep" -> cs.rep[s.r + 1] + 1 <= Len(cs.out)
    [] s.k = "eos" -> TRUE
    [] s.k = "eosn" -> TRUE
\* validity under a dictionary of `dict` bytes: a copy may not reach further back than that
ValidD(cs, s, dict) ==
  /\ Valid(cs, s)
  /\ CASE s.k = "lit" -> cs.st < 7 \/ cs.rep[1] + 1 <= dict
       [] s.k = "match" -> s.d <= dict
       [] s.k = "short" -> cs.rep[1] + 1 <= dict
       [] s.k = "rep" -> cs.rep[s.r + 1] + 1 <= dict
       [] s.k = "eos" -> TRUE
       [] s.k = "eosn" -> TRUE
\* output bytes a symbol adds
Gain(s) == CASE s.k = "lit" -> 1 [] s.k = "match" -> s.n [] s.k = "short" -> 1 [] s.k = "rep" -> s.n [] s.k = "eos" -> 0 [] s.k = "eosn" -> 0
Apply(cs, s) ==
  CASE s.k = "lit" -> [cs EXCEPT !.st = LitNext[cs.st + 1], !.out = Append(cs.out, s.b)]
    [] s.k = "match" -> [st |-> MatchNext(cs.st), rep |-> <<s.d - 1, cs.rep[1], cs.rep[2], cs.rep[3]>>, out |-> Copy(cs.out, s.d, s.n)]
    [] s.k = "short" -> [cs EXCEPT !.st = ShortNext(cs.st), !.out = Copy(cs.out, cs.rep[1] + 1, 1)]
    [] s.k = "rep" -> LET d0 == cs.rep[s.r + 1]
                          nr == CASE s.r = 0 -> cs.rep
                                  [] s.r = 1 -> <<cs.rep[2], cs.rep[1], cs.rep[3], cs.rep[4]>>
                                  [] s.r = 2 -> <<cs.rep[3], cs.rep[1], cs.rep[2], cs.rep[4]>>
                                  [] s.r = 3 -> <<cs.rep[4], cs.rep[1], cs.rep[2], cs.rep[3]>>
                      IN [st |-> RepNext(cs.st), rep |-> nr, out |-> Copy(cs.out, d0 + 1, s.n)]
    [] s.k = "eos" -> cs
    [] s.k = "eosn" -> cs

\* ---------- table dimensions lzma-rs allocates (C07: indices bounded by construction) ----------
\* lzma-rs addresses `spec` (pos_decoders[115]) at  base - slot + node.
SpecIndex(slot, node) == LET nd == (slot \div 2) - 1  base == (2 + (slot % 2)) * Pow2(nd) IN base - slot + node
InBounds(d, lc, lp) ==
  CASE d.t = "ismatch"    -> d.i[1] \in 0..11 /\ d.i[2] \in 0..15
    [] d.t = "isrep0long" -> d.i[1] \in 0..11 /\ d.i[2] \in 0..15
    [] d.t \in {"isrep", "isrepg0", "isrepg1", "isrepg2"} -> d.i[1] \in 0..11
    [] d.t \in {"len", "replen"} -> d.i[2] \in 0..1
    [] d.t \in {"len.low", "len.mid", "replen.low", "replen.mid"} -> d.i[1] \in 0..15 /\ d.i[2] \in 1..7
    [] d.t \in {"len.high", "replen.high"} -> d.i[2] \in 1..255
    [] d.t = "posslot" -> d.i[1] \in 0..3 /\ d.i[2] \in 1..63
    [] d.t = "spec"    -> d.i[1] \in 4..13 /\ SpecIndex(d.i[1], d.i[2]) \in 0..114
    [] d.t = "align"   -> d.i[2] \in 1..15
    [] d.t = "lit"     -> d.i[1] \in 0..(Pow2(lc + lp) - 1) /\ d.i[2] \in 1..767
    [] d.t = "direct"  -> TRUE
====

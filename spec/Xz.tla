---- MODULE Xz ----
(***************************************************************************)
(* The .xz container as lzma-rs parses it (decode/xz.rs decode_stream,      *)
(* read_block, read_block_header, validate_block_check, check_index;        *)
(* xz/header.rs, xz/mod.rs), at FIELD granularity, next to the declarative  *)
(* reading of xz-file-format 1.1.0 (WellFormed / Integrity / Supported).    *)
(*                                                                         *)
(* A file is a record of fields.  Sizes are numbers, CRC / magic / padding  *)
(* fields are abstracted to "is what the format requires" booleans (the     *)
(* harness recomputes every enclosing CRC of a mutated field, so that only  *)
(* that field's own validation can catch it).  The LZMA2 payload of block   *)
(* i is an entry of the payload library Lib (length, decoded length) that   *)
(* the harness serialises for real.                                         *)
(*                                                                         *)
(* The parser is transcribed with the arithmetic the code uses: the byte    *)
(* counter restarted per block, padding = ((count XOR 3) + 1) AND 3, the    *)
(* record (count - padding, unpacked), the footer comparison in CmpBits-bit *)
(* arithmetic (64 in the code since the D1 fix; the model is also run at    *)
(* small widths to show it finds the wrap).                                 *)
(*                                                                         *)
(* Properties: AcceptsWellFormed (C03), AcceptImpliesIntegrity and          *)
(* SinkOnlyVerified (C06), UnsupportedRefused (C18), PadLemma, NoWrap (C07) *)
(***************************************************************************)
EXTENDS Naturals, Integers, Sequences, FiniteSets, TLC

CONSTANTS CmpBits,   \* width of the arithmetic of the backward-size comparison (0 = unbounded)
          Lib        \* payload library: Seq of [plen |-> bytes of LZMA2 data, ulen |-> decoded bytes]

\* ------------------------------------------------------------------------ format facts
CheckLen(c) == CASE c = 0 -> 0 [] c \in 1..3 -> 4 [] c \in 4..6 -> 8 [] c \in 7..9 -> 16 [] c \in 10..12 -> 32 [] OTHER -> 64
AssignedCheck(c) == c \in {0, 1, 4, 10}
SupportedCheck(c) == c \in {0, 1, 4}
Pad4(n) == (4 - (n % 4)) % 4
RECURSIVE VarLen(_)
VarLen(v) == IF v < 128 THEN 1 ELSE 1 + VarLen(v \div 128)

\* the expression used by the code on the low two bits:  ((count ^ 3) + 1) & 3
Xor3(n) == (n - (n % 4)) + (3 - (n % 4))
CodePad(n) == (Xor3(n) + 1) % 4
PadLemma == \A n \in 0..1023 : CodePad(n) = Pad4(n)

\* ------------------------------------------------------------------------ files
\* block: [pid, hsize, hasP, hasU, pdecl, udecl, reserved, fid, nfilters, propsLen, hpadOk, hcrcOk, bpadOk, checkOk]
MinHdr(hasP, hasU, pl, ul) == LET body == 1 + 1 + (IF hasP THEN VarLen(pl) ELSE 0) + (IF hasU THEN VarLen(ul) ELSE 0) + 3 + 4
                              IN body + Pad4(body)
GoodBlock(s) == [pid |-> s.pid, hsize |-> s.hsize, hasP |-> s.hasP, hasU |-> s.hasU,
                 pdecl |-> Lib[s.pid].plen, udecl |-> Lib[s.pid].ulen,
                 reserved |-> FALSE, fid |-> 33, nfilters |-> 1, propsLen |-> 1,
                 hpadOk |-> TRUE, hcrcOk |-> TRUE, bpadOk |-> TRUE, checkOk |-> TRUE]
Unpadded(b, c) == b.hsize + Lib[b.pid].plen + CheckLen(c)
RecsOf(bs, c) == [i \in 1..Len(bs) |-> <<Unpadded(bs[i], c), Lib[bs[i].pid].ulen>>]
RECURSIVE RecBytes(_, _)
RecBytes(recs, i) == IF i = 0 THEN 0 ELSE RecBytes(recs, i - 1) + VarLen(recs[i][1]) + VarLen(recs[i][2])
IndexBody(n, recs) == 1 + VarLen(n) + RecBytes(recs, Len(recs))
IndexSize(n, recs) == LET b == IndexBody(n, recs) IN b + Pad4(b) + 4

GoodFile(c, shapes) ==
  LET bs == [i \in 1..Len(shapes) |-> GoodBlock(shapes[i])]
      recs == RecsOf(bs, c) IN
  [hmagicOk |-> TRUE, hnull |-> TRUE, hres |-> 0, fres |-> 0, check |-> c, hcrcOk |-> TRUE,
   blocks |-> bs,
   idxN |-> Len(bs), idxRecs |-> recs, idxPadOk |-> TRUE, idxCrcOk |-> TRUE,
   fcrcOk |-> TRUE, backward |-> (IndexSize(Len(bs), recs) \div 4) - 1, fnull |-> TRUE, fcheck |-> c,
   fmagicOk |-> TRUE, trailing |-> 0]

\* ------------------------------------------------------------------------ implementation-shaped parser
Trunc(x) == IF CmpBits = 0 THEN x ELSE x % (2 ^ CmpBits)

\* read_block: returns [ok, rec, out] ; `out` = bytes handed to the sink by this block
ParseBlock(f, b) ==
  LET hdrOk   == ~b.reserved /\ b.fid = 33 /\ b.nfilters = 1 /\ b.propsLen = 1 /\ b.hpadOk /\ b.hcrcOk
      plen    == Lib[b.pid].plen
      ulen    == Lib[b.pid].ulen
      sizesOk == (b.hasP => b.pdecl = plen) /\ (b.hasU => b.udecl = ulen)
      count   == b.hsize + plen                    \* CountBufRead restarted at the block's first byte
      pad     == CodePad(count)
      chkOk   == CASE f.check = 0 -> TRUE [] f.check \in {1, 4} -> b.checkOk [] OTHER -> FALSE
      ok      == hdrOk /\ sizesOk /\ b.bpadOk /\ chkOk
  IN [ok |-> ok,
      rec |-> <<(count + pad + CheckLen(f.check)) - pad, ulen>>,
      out |-> IF ok THEN ulen ELSE 0]       \* output.write_all only after the check passed

RECURSIVE FirstBad(_, _, _)
FirstBad(f, pb, i) == IF i > Len(pb) THEN 0 ELSE IF ~pb[i].ok THEN i ELSE FirstBad(f, pb, i + 1)
RECURSIVE SumOut(_, _)
SumOut(pb, n) == IF n = 0 THEN 0 ELSE SumOut(pb, n - 1) + pb[n].out

Parse(f) ==
  \* the check id is the WHOLE second flags byte: a non-zero reserved nibble is an unknown id
  LET headOk == f.hmagicOk /\ f.hcrcOk /\ f.hnull /\ f.hres = 0 /\ AssignedCheck(f.check) /\ f.check # 10
      pb     == [i \in 1..Len(f.blocks) |-> ParseBlock(f, f.blocks[i])]
      bad    == FirstBad(f, pb, 1)
      blocksOk == bad = 0
      measured == [i \in 1..Len(pb) |-> pb[i].rec]
      idxOk  == /\ f.idxN = Len(measured) /\ Len(f.idxRecs) = Len(measured)
                /\ \A i \in 1..Len(measured) : f.idxRecs[i] = measured[i]
                /\ f.idxPadOk /\ f.idxCrcOk
      isz    == IndexSize(f.idxN, f.idxRecs)          \* bytes really occupied by the index
      \* (no multiplication for the unbounded case: TLC integers are 32-bit)
      bsOk   == IF CmpBits = 0 THEN (isz % 4 = 0 /\ isz \div 4 = f.backward + 1)
                ELSE Trunc(isz) = Trunc(Trunc(f.backward + 1) * 4)
      footOk == bsOk /\ f.fnull /\ f.fres = 0 /\ AssignedCheck(f.fcheck) /\ f.fcheck = f.check /\ f.fcrcOk /\ f.fmagicOk /\ f.trailing = 0
      \* bytes that reached the sink before decoding stopped
      sunk   == IF ~headOk THEN 0 ELSE IF bad = 0 THEN SumOut(pb, Len(pb)) ELSE SumOut(pb, bad - 1)
  IN [accept |-> headOk /\ blocksOk /\ idxOk /\ footOk,
      sunk |-> sunk,
      \* every block whose bytes reached the sink had passed its own check
      sunkVerified |-> \A i \in 1..Len(pb) : pb[i].out > 0 => (f.check \in {1, 4} => f.blocks[i].checkOk)]

\* ------------------------------------------------------------------------ declarative
Integrity(f) ==
  /\ f.hmagicOk /\ f.hcrcOk /\ f.fmagicOk /\ f.fcrcOk /\ f.fcheck = f.check /\ f.hres = f.fres /\ f.hnull /\ f.fnull
  /\ \A i \in 1..Len(f.blocks) : LET b == f.blocks[i] IN
        /\ b.hcrcOk /\ b.hpadOk /\ b.bpadOk /\ b.checkOk
        /\ (b.hasP => b.pdecl = Lib[b.pid].plen) /\ (b.hasU => b.udecl = Lib[b.pid].ulen)
  /\ f.idxN = Len(f.blocks) /\ f.idxRecs = RecsOf(f.blocks, f.check)
  /\ f.idxPadOk /\ f.idxCrcOk
  /\ LET isz == IndexSize(f.idxN, f.idxRecs) IN isz % 4 = 0 /\ isz \div 4 = f.backward + 1
  /\ f.trailing = 0
Supported(f) ==
  /\ SupportedCheck(f.check) /\ f.hres = 0 /\ f.fres = 0
  /\ \A i \in 1..Len(f.blocks) : LET b == f.blocks[i] IN b.fid = 33 /\ ~b.reserved /\ b.nfilters = 1 /\ b.propsLen = 1
TotalOut(f) == LET S[i \in 0..Len(f.blocks)] == IF i = 0 THEN 0 ELSE S[i - 1] + Lib[f.blocks[i].pid].ulen IN S[Len(f.blocks)]
====

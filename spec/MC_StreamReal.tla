---- MODULE MC_StreamReal ----
(***************************************************************************)
(* Stream at the REAL constants.  Pre/TmpMax/MaxReq are not written here:   *)
(* bin/check reads them from the implementation (verif::constants()) and    *)
(* generates the cfg, so that e.g. a smaller MAX_REQUIRED_INPUT or          *)
(* MAX_TMP_LEN in the code is model-checked against the format's bound of   *)
(* MaxCost = 20 input bytes per symbol (lzma.rs: log2((2^11/31)^22) + 26    *)
(* bits < 160).  Shapes: one or two symbols with extreme costs, both header *)
(* lengths, marker / size termination; TLC explores every chunking.         *)
(***************************************************************************)
EXTENDS Stream, FiniteSets
CONSTANTS MaxCost

CostSet == {0, 1, 7, MaxCost - 1, MaxCost}
Q1 == {<<c>> : c \in CostSet}
Q2 == {<<a, b>> : a \in {1, MaxCost}, b \in CostSet}
RECURSIVE Sum(_, _)
Sum(q, i) == IF i = 0 THEN 0 ELSE Sum(q, i - 1) + q[i]

Mk(h, q, eos, sized, extra) ==
  [hdr |-> h, hdrErr |-> FALSE,
   sym |-> [i \in 1..Len(q) |-> [c |-> q[i], o |-> IF eos /\ i = Len(q) THEN 0 ELSE 1,
                                 k |-> IF eos /\ i = Len(q) THEN "eos" ELSE "ok",
                                 z |-> i = Len(q), cb |-> Sum(q, i),
                                 co |-> IF eos /\ i = Len(q) THEN i - 1 ELSE i]],
   z0 |-> FALSE,
   size |-> IF sized THEN (IF eos THEN Len(q) - 1 ELSE Len(q)) ELSE -1,
   total |-> h + Pre + Sum(q, Len(q)) + extra, inc |-> FALSE]

Init ==
  /\ \E h \in {13, 5}, q \in Q1 \cup Q2, eos \in BOOLEAN, sized \in BOOLEAN, extra \in {0, 1} :
       /\ ~(eos /\ sized)
       /\ sd = Mk(h, q, eos, sized, extra)
  /\ SInit
Next == (\E n \in 0..(sd.total - offered) : Write(n)) \/ Finish \/ (verdict # "none" /\ UNCHANGED vars)
Spec == Init /\ [][Next]_vars
====

---- MODULE RawReuse_proof ----
(***************************************************************************)
(* Unbounded version of what MC_RawReuse checks to depth MaxOps: for ANY    *)
(* number of decompress / reset operations ("for any number of reuse        *)
(* cycles", C14) the projection right after a reset is the projection of a  *)
(* new object, and the projection at the first symbol of a well-formed      *)
(* LZMA2 stream does not depend on the history.  Proved with TLAPS          *)
(* (tlapm): the inductive invariant is  pl = 0 /\ ResetIsFresh /\           *)
(* WellFormedStartIsFresh.                                                  *)
(***************************************************************************)
EXTENDS RawReuse, TLAPS

InitU == \E k \in {"lzma", "lzma2"}, p \in PropsSet, z \in Sizes :
          /\ kind = k /\ ctor = [props |-> p, size |-> z]
          /\ dirty = {} /\ st = 0 /\ repz = TRUE /\ pl = 0
          /\ props = (IF k = "lzma2" THEN 0 ELSE p) /\ rows = Rows(IF k = "lzma2" THEN 0 ELSE p)
          /\ size = (IF k = "lzma2" THEN NoSize ELSE z)
          /\ lastop = "new" /\ hist = <<"new">>

\* no bound on the number of operations
NextU == \/ Decompress
         \/ (\E p \in PropsSet, z \in Sizes : L2FirstChunk(p, z))
         \/ Reset(-1)
         \/ (kind = "lzma" /\ \E z \in Sizes : Reset(z))

SpecU == InitU /\ [][NextU]_vars

IndInv == pl = 0 /\ ResetIsFresh /\ WellFormedStartIsFresh

LEMMA InitOK == InitU => IndInv
  BY DEF InitU, IndInv, ResetIsFresh, WellFormedStartIsFresh

LEMMA StepOK == IndInv /\ [NextU]_vars => IndInv'
<1> SUFFICES ASSUME IndInv, [NextU]_vars PROVE IndInv'
  OBVIOUS
<1>1. CASE Decompress
  BY <1>1 DEF Decompress, IndInv, ResetIsFresh, WellFormedStartIsFresh
<1>2. CASE \E p \in PropsSet, z \in Sizes : L2FirstChunk(p, z)
  BY <1>2 DEF L2FirstChunk, IndInv, ResetIsFresh, WellFormedStartIsFresh, Proj
<1>3. CASE Reset(-1)
  BY <1>3 DEF Reset, IndInv, ResetIsFresh, WellFormedStartIsFresh, Proj, Fresh
<1>4. CASE kind = "lzma" /\ \E z \in Sizes : Reset(z)
  BY <1>4 DEF Reset, IndInv, ResetIsFresh, WellFormedStartIsFresh, Proj, Fresh
<1>5. CASE UNCHANGED vars
  BY <1>5 DEF vars, IndInv, ResetIsFresh, WellFormedStartIsFresh, Proj, Fresh
<1> QED BY <1>1, <1>2, <1>3, <1>4, <1>5 DEF NextU

THEOREM Unbounded == SpecU => [](ResetIsFresh /\ WellFormedStartIsFresh)
<1>1. InitU => IndInv BY InitOK
<1>2. IndInv /\ [NextU]_vars => IndInv' BY StepOK
<1>3. IndInv => ResetIsFresh /\ WellFormedStartIsFresh BY DEF IndInv
<1> QED BY <1>1, <1>2, <1>3, PTL DEF SpecU
====

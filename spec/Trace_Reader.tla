---- MODULE Trace_Reader ----
(***************************************************************************)
(* Trace validation of the BufRead protocol as the decoders use it: the     *)
(* harness's scripted source logs every fill_buf (bytes exposed), consume   *)
(* and read call made by lzma-rs.  A consume may never exceed what the      *)
(* preceding fill_buf exposed, a read never returns more than asked, and    *)
(* the position only moves forward by what was consumed/read.               *)
(***************************************************************************)
EXTENDS Naturals, Integers, Sequences, TLC, Json, IOUtils
Rec == ndJsonDeserialize(IOEnv.TRACE)
VARIABLES l, total, pos, win
tvars == <<l, total, pos, win>>
TInit == l = 1 /\ total = 0 /\ pos = 0 /\ win = 0
IsEv(e) == l <= Len(Rec) /\ Rec[l].ev = e /\ l' = l + 1
TStart == IsEv("S") /\ total' = Rec[l].total /\ pos' = 0 /\ win' = 0
TFill == /\ IsEv("fill") /\ Rec[l].n >= 0 /\ pos + Rec[l].n <= total
         /\ (Rec[l].n = 0 => pos = total)                 \* empty only at EOF
         /\ win' = Rec[l].n /\ UNCHANGED <<total, pos>>
TConsume == /\ IsEv("consume") /\ Rec[l].k <= win
            /\ pos' = pos + Rec[l].k /\ win' = win - Rec[l].k /\ UNCHANGED total
TRead == /\ IsEv("read") /\ Rec[l].got <= Rec[l].req /\ pos + Rec[l].got <= total
         /\ pos' = pos + Rec[l].got /\ win' = 0 /\ UNCHANGED total
TEnd == IsEv("end") /\ Rec[l].consumed = pos /\ UNCHANGED <<total, pos, win>>
TNext == TStart \/ TFill \/ TConsume \/ TRead \/ TEnd
TSpec == TInit /\ [][TNext]_tvars
Accepted ==
  LET d == TLCGet("stats").diameter IN
  IF d - 1 = Len(Rec) THEN PrintT(<<"TRACE-ACCEPTED", Len(Rec)>>)
  ELSE PrintT(<<"TRACE-REJECTED at line", d, Rec[d]>>) /\ FALSE
====

---- MODULE LzmaHeader ----
(***************************************************************************)
(* The .lzma header as `LzmaParams::read_header` (decode/lzma.rs) reads it  *)
(* under the three decode options, next to what the format / the option     *)
(* documentation says:                                                      *)
(*   byte 0      properties = lc + 9 * (lp + 5 * pb), must be < 225         *)
(*   bytes 1..4  dictionary size (LE); below 4096 behaves as 4096           *)
(*   bytes 5..12 uncompressed size (LE), all-ones = unknown - present for   *)
(*               ReadFromHeader and ReadHeaderButUseProvided, absent for    *)
(*               UseProvided                                                *)
(* The size in effect is the header field under ReadFromHeader and the      *)
(* caller's value otherwise (which ALWAYS overrides the field).             *)
(* Sizes / dictionary values are classes: what matters is which class a     *)
(* value is in, the harness instantiates them.                              *)
(* Properties: PropsBijection, HeaderBytes, Override, Clamp, ShortIsShort.  *)
(***************************************************************************)
EXTENDS Naturals, Integers, TLC

Opts == {"ReadFromHeader", "ReadHeaderButUseProvided", "UseProvided"}
SizeClasses == {"none", "zero", "true", "truePlus1", "huge", "top", "allButOne"}      \* "none" in the header field = all-ones
DictClasses == {0, 1, 4095, 4096, 4097, 65536, 2147483647}

\* implementation-shaped: the reads in the order the code performs them; avail = bytes the input holds
Parse(props, dict, field, opt, provided, avail) ==
  IF avail < 1 THEN [v |-> "short", consumed |-> 0]
  ELSE IF props >= 225 THEN [v |-> "err", consumed |-> 1]
  ELSE IF avail < 5 THEN [v |-> "short", consumed |-> avail]
  ELSE LET lc == props % 9
           lp == (props \div 9) % 5
           pb == (props \div 9) \div 5
           dictEff == IF dict < 4096 THEN 4096 ELSE dict
           need == IF opt = "UseProvided" THEN 5 ELSE 13
       IN IF avail < need THEN [v |-> "short", consumed |-> avail]
          ELSE [v |-> "ok", consumed |-> need, lc |-> lc, lp |-> lp, pb |-> pb, dict |-> dictEff,
                size |-> IF opt = "ReadFromHeader" THEN field ELSE provided]

\* declarative
PropsBijection == \A p \in 0..224 :
   LET r == Parse(p, 4096, "none", "UseProvided", "none", 5) IN
   /\ r.lc \in 0..8 /\ r.lp \in 0..4 /\ r.pb \in 0..4
   /\ r.lc + 9 * (r.lp + 5 * r.pb) = p
PropsRejected == \A p \in 225..255 : Parse(p, 4096, "none", "ReadFromHeader", "none", 13).v = "err"
HeaderBytes == \A o \in Opts : Parse(93, 4096, "true", o, "zero", 13).consumed = (IF o = "UseProvided" THEN 5 ELSE 13)
Override == \A f \in SizeClasses, x \in SizeClasses :
   /\ Parse(93, 4096, f, "ReadHeaderButUseProvided", x, 13).size = x
   /\ Parse(93, 4096, f, "UseProvided", x, 13).size = x
   /\ Parse(93, 4096, f, "ReadFromHeader", x, 13).size = f
Clamp == \A d \in DictClasses : Parse(93, d, "none", "ReadFromHeader", "none", 13).dict = (IF d < 4096 THEN 4096 ELSE d)
ShortIsShort == \A o \in Opts, k \in 0..12 :
   (k < (IF o = "UseProvided" THEN 5 ELSE 13)) => Parse(93, 4096, "none", o, "none", k).v = "short"
====

---- MODULE Trace_Stream ----
(***************************************************************************)
(* Trace validation for Stream: every line of the ndjson trace recorded     *)
(* from the real `lzma_rs::decompress::Stream` (through the cfg-gated       *)
(* projection hook) must be explained by the corresponding action of        *)
(* Stream.tla started from the shape loaded by the preceding Reset line.    *)
(* Logged after each call: return value, phase, tmp fill, partial-buffer    *)
(* fill, number of symbols committed.  A field logged as -1 is "not         *)
(* observed" and is inferred by TLC.                                        *)
(***************************************************************************)
EXTENDS Stream, Json, IOUtils
Rec == ndJsonDeserialize(IOEnv.TRACE)
VARIABLE l
tvars == <<vars, l>>

TInit == /\ l = 1 /\ SInit
         /\ sd = [hdr |-> 13, hdrErr |-> FALSE, sym |-> <<>>, z0 |-> FALSE, size |-> -1, total |-> 0, inc |-> FALSE]
IsEv(e) == l <= Len(Rec) /\ Rec[l].ev = e /\ l' = l + 1

TReset == /\ IsEv("Reset")
          /\ sd' = Rec[l].sd
          /\ phase' = "Header" /\ tmp' = 0 /\ pl' = 0 /\ sym' = 0 /\ offered' = 0
          /\ lastRet' = 0 /\ lastN' = 0 /\ verdict' = "none"

Obs(field, val) == field = -1 \/ field = val

TWrite == /\ IsEv("Write")
          /\ Write(Rec[l].n)
          /\ lastRet' = Rec[l].ret
          /\ phase' = Rec[l].phase
          /\ Obs(Rec[l].tmp, tmp')
          /\ Obs(Rec[l].pl, pl') 
          /\ Obs(Rec[l].syms, sym')

TFinish == /\ IsEv("Finish")
           /\ Finish
           /\ verdict' = (IF Rec[l].ok THEN "ok" ELSE "err")
           /\ Obs(Rec[l].syms, sym')

\* a flush() call of the driver: no variable of the specification moves; the driver logs how many bytes the sink
\* holds before and after (equal, or the trace is rejected here)
TFlush == /\ IsEv("Flush")
          /\ Flush
          /\ Rec[l].before = Rec[l].after

TNext == TReset \/ TWrite \/ TFinish \/ TFlush
TSpec == TInit /\ [][TNext]_tvars

Accepted ==
  LET d == TLCGet("stats").diameter IN
  IF d - 1 = Len(Rec) THEN PrintT(<<"TRACE-ACCEPTED", Len(Rec)>>)
  ELSE PrintT(<<"TRACE-REJECTED at line", d, Rec[d]>>) /\ FALSE
====

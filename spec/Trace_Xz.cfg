SPECIFICATION TSpec
CONSTANTS
  CmpBits = 0
  Lib <- NoLib
POSTCONDITION Accepted
CHECK_DEADLOCK FALSE

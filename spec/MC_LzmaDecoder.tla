---- MODULE MC_LzmaDecoder ----
(***************************************************************************)
(* Bounded instance of LzmaDecoder: every symbol program up to MaxSyms      *)
(* symbols x dictionary sizes x memory limits x sizes in effect.  Exports   *)
(* one JSON line per finished behaviour for replay into the raw decoder     *)
(* (dict_size = D is the real dictionary size there: exact, not scaled).    *)
(***************************************************************************)
EXTENDS LzmaDecoder, Json
CONSTANTS MaxSyms, Ds, Ms, Sizes, Lits, Dists, Lens, RepLens

SizesQuick == {-1, 2, 3, 5}
SizesThorough == {-1, 0, 1, 2, 3, 4, 5, 7}

Init ==
  /\ par \in {[D |-> d, M |-> m, size |-> s] : d \in Ds, m \in Ms, s \in Sizes}
  /\ st = 0 /\ rep = <<0, 0, 0, 0>>
  /\ buf = <<>> /\ cursor = 0 /\ len = 0 /\ sink = <<>>
  /\ res = "run" /\ why = "" /\ fab = FALSE
  /\ tw = [cs |-> InitCS, v |-> "run"]
  /\ prog = <<>>

More == Len(prog) < MaxSyms

Next ==
  \/ (More /\ \E b \in Lits : DecodeLit(b))
  \/ (More /\ \E d \in Dists, n \in Lens : DecodeMatch(d, n))
  \/ (More /\ DecodeShort)
  \/ (More /\ \E r \in 0..3, n \in RepLens : DecodeRep(r, n))
  \/ DecodeEos
  \/ StopAtSize
  \/ InputEnds
  \/ Done

Spec == Init /\ [][Next]_vars /\ WF_vars(Next)

Terminates == <>(res # "run")

Emit == res # "run" =>
  PrintT(<<"CASE", ToJson([D |-> par.D, M |-> par.M, size |-> par.size, prog |-> prog,
                          res |-> res, why |-> why, out |-> tw.cs.out, sink |-> sink, tv |-> tw.v])>>)
====

---- MODULE RawReuse ----
(***************************************************************************)
(* Reuse of the raw decoders (decode/lzma.rs LzmaDecoder::reset,            *)
(* decode/lzma2.rs Lzma2Decoder::reset, DecoderState::reset_state /         *)
(* set_unpacked_size).  The object is the projection of DecoderState that   *)
(* can influence a later decode:                                            *)
(*   dirty   set of probability-table groups holding adapted values         *)
(*   st, rep automaton state / "rep distances are all zero"                 *)
(*   props   lc/lp/pb in effect (an index), rows = rows of the literal table*)
(*   size    uncompressed size in effect                                    *)
(*   pl      bytes parked in the partial input buffer                       *)
(* Operations: Decompress(stream kind) leaves an arbitrary used state       *)
(* (which tables, state, reps depends on the stream: nondeterministic);     *)
(* Reset restores everything except - by documented design - the size in    *)
(* effect when None is passed.                                              *)
(* Property (C14): right after Reset the projection equals that of a        *)
(* freshly constructed decoder with the same parameters, hence (the decode  *)
(* result being a function of projection and input) the next decompress     *)
(* cannot be told apart from one on a new object.                           *)
(***************************************************************************)
EXTENDS Naturals, Integers, FiniteSets, Sequences, TLC

CONSTANTS Groups,     \* probability table groups: {"lit","posslot","align","spec","ismatch","isrep","rep0long","len","replen"}
          PropsSet,   \* property sets a stream may switch to (LZMA2); element 0 = the constructor's
          Sizes,      \* sizes a caller may set (0 = none)
          States      \* automaton states a decode may stop in

VARIABLES kind,   \* "lzma" | "lzma2"
          ctor,   \* [props, size] given at construction
          dirty, st, repz, props, rows, size, pl,
          lastop,
          hist
vars == <<kind, ctor, dirty, st, repz, props, rows, size, pl, lastop, hist>>

\* property sets are encoded as lc*100 + lp*10 + pb; the literal table has 2^(lc+lp) rows
NoSize == -2     \* "no uncompressed size in effect"
Rows(p) == 2 ^ ((p \div 100) + ((p \div 10) % 10))
Fresh(k, c, sz) == [dirty |-> {}, st |-> 0, repz |-> TRUE, props |-> IF k = "lzma2" THEN 0 ELSE c.props,
                    rows |-> Rows(IF k = "lzma2" THEN 0 ELSE c.props), size |-> sz, pl |-> 0]
Proj == [dirty |-> dirty, st |-> st, repz |-> repz, props |-> props, rows |-> rows, size |-> size, pl |-> pl]

New(k, c) ==
  /\ kind' = k /\ ctor' = c
  /\ dirty' = {} /\ st' = 0 /\ repz' = TRUE /\ pl' = 0
  /\ props' = (IF k = "lzma2" THEN 0 ELSE c.props) /\ rows' = Rows(IF k = "lzma2" THEN 0 ELSE c.props)
  /\ size' = (IF k = "lzma2" THEN NoSize ELSE c.size)
  /\ lastop' = "new" /\ hist' = <<"new">>

\* a decode (successful, failed half-way, truncated) leaves any used state behind;
\* an LZMA2 stream may also have switched properties and set a per-chunk target size
Decompress ==
  /\ \E d \in SUBSET Groups, s \in States, rz \in BOOLEAN :
        /\ dirty' = dirty \cup d /\ st' = s /\ repz' = rz
  /\ IF kind = "lzma2"
     THEN \E p \in PropsSet, z \in Sizes : props' = p /\ rows' = Rows(p) /\ size' = z
     ELSE UNCHANGED <<props, rows, size>>
  /\ pl' = 0                      \* Finish mode never parks input
  /\ lastop' = "decompress" /\ hist' = Append(hist, "decompress")
  /\ UNCHANGED <<kind, ctor>>

\* The first chunk of a WELL-FORMED LZMA2 stream asks for a dictionary reset, a state reset and new properties
\* (Lzma2Decoder::parse_lzma with control >= 0xE0) and sets the per-chunk size: whatever the object did before is
\* overwritten before the first symbol is decoded.  This is why an Lzma2Decoder may be reused WITHOUT reset on
\* well-formed streams (WellFormedStartIsFresh), while an LzmaDecoder may not (its Decompress starts from Proj).
L2FirstChunk(p, z) ==
  /\ kind = "lzma2"
  /\ dirty' = {} /\ st' = 0 /\ repz' = TRUE /\ pl' = 0
  /\ props' = p /\ rows' = Rows(p) /\ size' = z
  /\ lastop' = "l2first" /\ hist' = Append(hist, "l2first")
  /\ UNCHANGED <<kind, ctor>>

\* LzmaDecoder::reset(Option<Option<u64>>) / Lzma2Decoder::reset()
Reset(newsize) ==      \* newsize: -1 = keep, or a member of Sizes
  /\ dirty' = {} /\ st' = 0 /\ repz' = TRUE
  /\ props' = (IF kind = "lzma2" THEN 0 ELSE ctor.props)
  /\ rows' = Rows(IF kind = "lzma2" THEN 0 ELSE ctor.props)
  /\ size' = (IF kind = "lzma" /\ newsize # -1 THEN newsize ELSE size)
  /\ pl' = pl
  /\ lastop' = "reset" /\ hist' = Append(hist, "reset")
  /\ UNCHANGED <<kind, ctor>>

\* C14
ResetIsFresh == lastop = "reset" => Proj = Fresh(kind, ctor, size)
\* C02 on a reused object: at the first symbol of a well-formed LZMA2 stream the projection is a function of the
\* stream's own first chunk header alone
WellFormedStartIsFresh ==
  lastop = "l2first" => Proj = [dirty |-> {}, st |-> 0, repz |-> TRUE, props |-> props, rows |-> Rows(props), size |-> size, pl |-> 0]
====

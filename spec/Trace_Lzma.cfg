SPECIFICATION TSpec
INVARIANT StateRange
POSTCONDITION Accepted
CHECK_DEADLOCK FALSE

---- MODULE Encoder ----
(***************************************************************************)
(* The encoders of lzma-rs (encode/dumbencoder.rs, encode/lzma2.rs,         *)
(* encode/xz.rs) as functions from (input bytes, how the source fragments   *)
(* them, option) to an ABSTRACT output - the symbol / chunk / field         *)
(* structure the bytes must have - checked against the format semantics     *)
(* the decoders' specifications use:                                        *)
(*   .lzma : header by option; one literal per input byte coded under       *)
(*           lc=3, lp=0, pb=2; an end marker iff the size is not recorded   *)
(*   LZMA2 : one uncompressed chunk WITH dictionary reset per non-empty     *)
(*           read of at most ChunkMax bytes; end byte                       *)
(*   .xz   : check None, one block with a fixed 12-byte header, block       *)
(*           padding, one index record, footer backward size                *)
(* Properties (C04): RoundTrip* (what the format semantics decode equals    *)
(* the input, under the matching decode option), XzArithmetic (sizes,       *)
(* padding, index, backward size as xz-file-format requires).               *)
(***************************************************************************)
EXTENDS LzmaCoding, FiniteSets
CONSTANTS ChunkMax      \* bytes per LZMA2 chunk: 65536 in the code, scaled in model checking

\* ---------------- .lzma ----------------
\* opt: "marker" = WriteToHeader(None), "size" = WriteToHeader(Some(len)), "skip" = SkipWritingToHeader
LzmaOut(input, opt) ==
  [hdrLen |-> IF opt = "skip" THEN 5 ELSE 13,
   props |-> 93,                                   \* lc + 9 * (lp + 5 * pb) = 3 + 9 * (0 + 5 * 2)
   dict |-> 8388608,
   sizeField |-> IF opt = "size" THEN Len(input) ELSE IF opt = "marker" THEN -1 ELSE -2,   \* -1 all-ones, -2 absent
   syms |-> [i \in 1..Len(input) |-> [k |-> "lit", b |-> input[i]]] \o (IF opt = "marker" THEN <<[k |-> "eos"]>> ELSE <<>>)]

\* what the format semantics make of a symbol list (LzmaCoding!Apply), or "invalid"
RECURSIVE RunSyms(_, _, _)
RunSyms(cs, syms, i) ==
  IF i > Len(syms) THEN [ok |-> TRUE, cs |-> cs, eos |-> FALSE]
  ELSE IF syms[i].k = "eos" THEN [ok |-> i = Len(syms), cs |-> cs, eos |-> TRUE]
  ELSE IF ~Valid(cs, syms[i]) THEN [ok |-> FALSE, cs |-> cs, eos |-> FALSE]
  ELSE RunSyms(Apply(cs, syms[i]), syms, i + 1)

\* decode option matching the encode option, and the format's verdict
DecodeOk(o, n) ==
  LET r == RunSyms(InitCS, o.syms, 1) IN
  /\ r.ok
  /\ CASE o.sizeField = -1 -> r.eos                                   \* ReadFromHeader, marker mandatory
       [] o.sizeField >= 0 -> ~r.eos /\ Len(r.cs.out) = o.sizeField    \* ReadFromHeader, size in header
       [] o.sizeField = -2 -> ~r.eos /\ Len(r.cs.out) = n              \* UseProvided(Some(n)) out of band
RoundTripLzma(input, opt) == LET o == LzmaOut(input, opt) IN DecodeOk(o, Len(input)) /\ RunSyms(InitCS, o.syms, 1).cs.out = input
\* every literal is coded in a state < 7 (never "matched"), so the encoder's prev>>5 context is the format's
LitOnly(input, opt) == \A i \in 1..Len(LzmaOut(input, opt).syms) : LzmaOut(input, opt).syms[i].k \in {"lit", "eos"}

\* ---------------- LZMA2 ----------------
\* reads: Seq of positive fragment lengths summing to Len(input): what each input.read(buf[0..ChunkMax]) returns
RECURSIVE ChunksOf(_, _, _)
ChunksOf(input, reads, pos) ==
  IF reads = <<>> THEN <<>>
  ELSE LET n == IF Head(reads) < ChunkMax THEN Head(reads) ELSE ChunkMax     \* a read never returns more than the buffer
       IN <<[reset |-> TRUE, data |-> SubSeq(input, pos + 1, pos + n)]>> \o
          ChunksOf(input, IF Head(reads) > n THEN <<Head(reads) - n>> \o Tail(reads) ELSE Tail(reads), pos + n)
Lzma2Out(input, reads) == ChunksOf(input, reads, 0)
RECURSIVE Concat(_, _)
Concat(chs, i) == IF i = 0 THEN <<>> ELSE Concat(chs, i - 1) \o chs[i].data
Lzma2Bytes(chs) == LET S[i \in 0..Len(chs)] == IF i = 0 THEN 0 ELSE S[i - 1] + 3 + Len(chs[i].data) IN S[Len(chs)] + 1
RoundTripLzma2(input, reads) ==
  LET chs == Lzma2Out(input, reads) IN
  /\ \A i \in 1..Len(chs) : Len(chs[i].data) \in 1..ChunkMax          \* size field is (n - 1) in 16 bits
  /\ (Len(chs) > 0 => chs[1].reset)                                   \* first chunk resets the dictionary
  /\ Concat(chs, Len(chs)) = input

\* the same chunking on lengths only (for inputs too long to spell out)
RECURSIVE ChunkLens(_)
ChunkLens(reads) ==
  IF reads = <<>> THEN <<>>
  ELSE LET n == IF Head(reads) < ChunkMax THEN Head(reads) ELSE ChunkMax
       IN <<n>> \o ChunkLens(IF Head(reads) > n THEN <<Head(reads) - n>> \o Tail(reads) ELSE Tail(reads))
L2BytesOfLens(lens) == LET S[i \in 0..Len(lens)] == IF i = 0 THEN 0 ELSE S[i - 1] + 3 + lens[i] IN S[Len(lens)] + 1

\* ---------------- .xz ----------------
Pad4(n) == (4 - (n % 4)) % 4
RECURSIVE VarLen(_)
VarLen(v) == IF v < 128 THEN 1 ELSE 1 + VarLen(v \div 128)
XzOut(input, reads) ==
  LET l2 == Lzma2Bytes(Lzma2Out(input, reads))
      unpadded == 12 + l2                          \* block header (12) + compressed data + check (None: 0)
      idxBody == 1 + 1 + VarLen(unpadded) + VarLen(Len(input))
      idxSize == idxBody + Pad4(idxBody) + 4
  IN [check |-> 0, hsize |-> 12, l2len |-> l2, blockPad |-> Pad4(unpadded),
      idxN |-> 1, idxUnpadded |-> unpadded, idxUnpacked |-> Len(input), idxPad |-> Pad4(idxBody),
      backward |-> (idxSize \div 4) - 1, idxSize |-> idxSize]
XzOutN(n, reads) ==
  LET l2 == L2BytesOfLens(ChunkLens(reads))
      unpadded == 12 + l2
      idxBody == 1 + 1 + VarLen(unpadded) + VarLen(n)
      idxSize == idxBody + Pad4(idxBody) + 4
  IN [check |-> 0, hsize |-> 12, l2len |-> l2, blockPad |-> Pad4(unpadded),
      idxN |-> 1, idxUnpadded |-> unpadded, idxUnpacked |-> n, idxPad |-> Pad4(idxBody),
      backward |-> (idxSize \div 4) - 1, idxSize |-> idxSize]
XzArithmetic(input, reads) ==
  LET x == XzOut(input, reads) IN
  /\ (x.hsize + x.l2len + x.blockPad) % 4 = 0
  /\ x.idxSize % 4 = 0 /\ (x.backward + 1) * 4 = x.idxSize
  /\ x.idxUnpadded = x.hsize + x.l2len /\ x.idxUnpacked = Len(input)
====

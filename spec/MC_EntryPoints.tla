---- MODULE MC_EntryPoints ----
(***************************************************************************)
(* Every case of EntryPoints, with the verdict the rules give, exported for  *)
(* replay into all five entry points.                                        *)
(***************************************************************************)
EXTENDS EntryPoints, Json
VARIABLES c
Init == c \in {x \in Case : WellFormedCase(x)}
Next == UNCHANGED c
Spec == Init /\ [][Next]_c
\* the rules quantify over all cases and do not depend on the state: checked once, as an assumption of the model
Rules == SizeExact /\ OverrideRule /\ MarkerEnds /\ TrailIgnored /\ OptionsAgree /\ Reach
ASSUME RulesHold == Rules
Emit == PrintT(<<"EP", ToJson([c |-> c, size |-> Eff(c), verdict |-> Verdict(c), consumed |-> Consumed(Eff(c), c.marker),
                             eps |-> EntryPointsOf(c.opt)])>>)
====

---- MODULE RangeCoderSmall ----
(***************************************************************************)
(* The binary adaptive range coder of LZMA (encode/rangecoder.rs            *)
(* RangeEncoder::encode_bit / normalize / write_low / finish and            *)
(* decode/rangecoder.rs RangeDecoder::new / decode_bit / get_bit /          *)
(* normalize) with the word size, digit size and probability precision as   *)
(* PARAMETERS:   W  bits in `range`            (32 in the code)             *)
(*               B  bits per output digit      (8: a byte)                  *)
(*               P  bits of probability        (11)                         *)
(*               M  adaptation shift           (5)                          *)
(* TLC's integers are 32-bit, so the coder is model-checked at small        *)
(* parameters (W = 8, B = 2, P = 3, M = 1), where every carry, every run of *)
(* pending all-ones digits and every normalisation pattern is reachable     *)
(* with a handful of bits.  The structure is exactly that of the Rust code; *)
(* only the constants differ.                                               *)
(*                                                                         *)
(* Properties: RoundTrip (the decoder recovers the encoded bits),           *)
(* LockStep (after k bits the decoder has consumed exactly                  *)
(* W/B + 1 + normalisations digits, and at the end exactly everything the   *)
(* encoder emitted: C11's "nothing after the payload is read or required"), *)
(* CleanEnd (code = 0 after a flushed stream: what is_finished_ok tests).   *)
(* Bound to the implementation through the harness kernel: the kernel is    *)
(* generic in (W, B, P, M), TLC's exported digit strings must be reproduced *)
(* bit-exactly by the kernel at the small parameters, and the kernel at     *)
(* (32, 8, 11, 5) is cross-checked against lzma-rs and liblzma on every run.*)
(***************************************************************************)
EXTENDS Naturals, Integers, Sequences, TLC

CONSTANTS W, B, P, M

Pow2(n) == 2 ^ n
\* The decoder normalises with a single `if` (one digit per bit) where the encoder loops.  That is sound
\* iff one shift always suffices: the smallest reachable probability PMin = 2^M - 1 (p - (p >> M) stops
\* shrinking there) must satisfy PMin * 2^B >= 2^P.  In the code: 31 * 256 >= 2048.  (TLC found the
\* decoder losing lock-step at W=8, B=2, P=3, M=1, which violates it.)
PMin == Pow2(M) - 1
ASSUME OneShiftSuffices == PMin * Pow2(B) >= Pow2(P)
Top == Pow2(W - B)              \* normalise while range < Top      (0x0100_0000)
ProbInit == Pow2(P - 1)         \* 0x400
DigitMax == Pow2(B) - 1         \* 0xFF
NDig == W \div B                \* digits in a word (4)

\* ---------------- encoder: e = [low, range, cache, cachesz, out, norms] ----------------
EncInit == [low |-> 0, range |-> Pow2(W) - 1, cache |-> 0, cachesz |-> 1, out |-> <<>>, norms |-> 0]

RECURSIVE Pend(_, _)
Pend(n, d) == IF n = 0 THEN <<>> ELSE <<d>> \o Pend(n - 1, d)

\* fn write_low
ShiftLow(e) ==
  LET flush == e.low < DigitMax * Top \/ e.low >= Pow2(W)
      carry == e.low \div Pow2(W)                            \* 0 or 1
      emitted == IF flush
                 THEN <<(e.cache + carry) % Pow2(B)>> \o Pend(e.cachesz - 1, (DigitMax + carry) % Pow2(B))
                 ELSE <<>>
  IN [e EXCEPT !.out = @ \o emitted,
               !.cache = IF flush THEN (e.low \div Top) % Pow2(B) ELSE @,
               !.cachesz = (IF flush THEN 0 ELSE @) + 1,
               !.low = (e.low % Top) * Pow2(B)]

RECURSIVE EncNorm(_)
EncNorm(e) == IF e.range >= Top THEN e ELSE EncNorm([ShiftLow([e EXCEPT !.range = @ * Pow2(B)]) EXCEPT !.norms = @ + 1])

\* fn encode_bit(prob, bit) -> [e, p]
EncBit(e, p, bit) ==
  LET bound == (e.range \div Pow2(P)) * p IN
  IF bit = 0 THEN [e |-> EncNorm([e EXCEPT !.range = bound]), p |-> p + ((Pow2(P) - p) \div Pow2(M))]
  ELSE [e |-> EncNorm([e EXCEPT !.low = @ + bound, !.range = @ - bound]), p |-> p - (p \div Pow2(M))]

\* fn finish: W/B + 1 times write_low
RECURSIVE Flush(_, _)
Flush(e, n) == IF n = 0 THEN e ELSE Flush(ShiftLow(e), n - 1)
EncFinish(e) == Flush(e, NDig + 1)

\* ---------------- decoder over a digit sequence: d = [range, code, pos, eof] ----------------
RECURSIVE CodeOf(_, _, _)
CodeOf(s, i, n) == IF n = 0 THEN 0 ELSE CodeOf(s, i, n - 1) * Pow2(B) + s[i + n - 1]
DecInit(s) == [range |-> Pow2(W) - 1, code |-> CodeOf(s, 2, NDig), pos |-> NDig + 1, eof |-> FALSE]   \* first digit ignored
DecNorm(d, s) ==
  IF d.range >= Top THEN d
  ELSE LET have == d.pos + 1 <= Len(s)
           dig == IF have THEN s[d.pos + 1] ELSE 0
       IN [range |-> d.range * Pow2(B), code |-> (d.code * Pow2(B) + dig) % Pow2(W), pos |-> d.pos + 1, eof |-> d.eof \/ ~have]
DecBit(d, p, s) ==
  LET bound == (d.range \div Pow2(P)) * p IN
  IF d.code < bound
  THEN [d |-> DecNorm([d EXCEPT !.range = bound], s), p |-> p + ((Pow2(P) - p) \div Pow2(M)), bit |-> 0]
  ELSE [d |-> DecNorm([d EXCEPT !.code = @ - bound, !.range = @ - bound], s), p |-> p - (p \div Pow2(M)), bit |-> 1]
====

SPECIFICATION Spec
CONSTANTS
  W = 9
  B = 3
  P = 4
  M = 2
  MaxBits = 12
  NCtx = 2
INVARIANTS RoundTrip LockStep CleanEnd ProbRange RangeOK Emit
CHECK_DEADLOCK FALSE

SPECIFICATION TSpec
INVARIANTS ContractAt ShapeAt
POSTCONDITION Accepted
CHECK_DEADLOCK FALSE

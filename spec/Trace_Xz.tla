---- MODULE Trace_Xz ----
(***************************************************************************)
(* Trace validation of the XZ container parser: while lzma-rs decodes real  *)
(* .xz files (the repository's test files = liblzma output, and files       *)
(* serialised by the harness) the cfg-gated hooks log, per block, the       *)
(* header size, the bytes counted for the block, the padding the code       *)
(* computed, the decoded size and the optional declared sizes; at the index *)
(* the record count and the measured index size.  Every logged number must  *)
(* be what the declarative formulas of Xz.tla give: padding = Pad4,         *)
(* declared sizes = actual sizes, block total a multiple of four, the index *)
(* size = IndexSize(records) with the records (unpadded, unpacked) of the   *)
(* blocks seen.                                                             *)
(***************************************************************************)
EXTENDS Xz, Json, IOUtils
Rec == ndJsonDeserialize(IOEnv.TRACE)
NoLib == <<>>
VARIABLES l, check, recs
tvars == <<l, check, recs>>
TInit == l = 1 /\ check = 0 /\ recs = <<>>
IsEv(e) == l <= Len(Rec) /\ Rec[l].ev = e /\ l' = l + 1
THdr == IsEv("xzhdr") /\ check' = Rec[l].check /\ SupportedCheck(Rec[l].check) /\ recs' = <<>>
TBlock ==
  /\ IsEv("xzblock")
  /\ LET r == Rec[l]
         unpadded == r.total - r.pad           \* header + compressed data + check
         payload == unpadded - r.hsize - CheckLen(check)
     IN /\ r.hsize % 4 = 0 /\ r.hsize \in 8..1024
        /\ r.total % 4 = 0
        /\ r.pad = Pad4(r.hsize + payload) /\ r.pad = CodePad(r.hsize + payload)
        /\ payload >= 1
        /\ (r.pdecl >= 0 => r.pdecl = payload)
        /\ (r.udecl >= 0 => r.udecl = r.unpacked)
        /\ recs' = Append(recs, <<unpadded, r.unpacked>>)
  /\ UNCHANGED check
TIndex ==
  /\ IsEv("xzindex")
  /\ Rec[l].n = Len(recs)
  /\ Rec[l].size = IndexSize(Len(recs), recs)
  /\ UNCHANGED <<check, recs>>
TEnd == IsEv("xzend") /\ Rec[l].size = IndexSize(Len(recs), recs) /\ UNCHANGED <<check, recs>>
TNext == THdr \/ TBlock \/ TIndex \/ TEnd
TSpec == TInit /\ [][TNext]_tvars
Accepted ==
  LET d == TLCGet("stats").diameter IN
  IF d - 1 = Len(Rec) THEN PrintT(<<"TRACE-ACCEPTED", Len(Rec)>>)
  ELSE PrintT(<<"TRACE-REJECTED at line", d, Rec[d]>>) /\ FALSE
====

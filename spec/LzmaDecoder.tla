---- MODULE LzmaDecoder ----
(***************************************************************************)
(* Implementation-shaped model of the one-shot LZMA decoder of lzma-rs      *)
(* (decode/lzma.rs process_mode + process_next_inner, decode/lzbuffer.rs    *)
(* LzCircularBuffer) at SYMBOL granularity, together with its declarative   *)
(* twin (LzmaCoding!Apply over an unbounded history + the format's size /   *)
(* end-marker / dictionary / memory rules).                                 *)
(*                                                                         *)
(* One action per iteration of the decoder loop; the window operations are *)
(* transcribed with the same guards, the same index arithmetic and the     *)
(* same `unwrap_or(0)` read as the Rust code, so that TLC - not review -   *)
(* establishes that the circular window with lazy growth and flush-on-wrap *)
(* refines "history is an unbounded sequence" (Refines), never reads a      *)
(* cell it did not write (NoFabrication), never holds more than the limit   *)
(* (BufBound) and ends with the verdict the format rules give (Verdict).    *)
(*                                                                         *)
(* Used for C01, C08, C09, C10 (and C07: index/arith bounds).               *)
(***************************************************************************)
EXTENDS LzmaCoding, FiniteSets

CONSTANTS Inf        \* "no memory limit" (any number larger than every length in the model)

VARIABLES
  par,      \* [D |-> dictionary size in effect, M |-> memory limit, size |-> -1 (none) or n]
  st, rep,  \* implementation: automaton state, repeat distances (minus one)
  buf, cursor, len,   \* implementation: circular window (buf grows lazily up to D)
  sink,     \* bytes handed to the output sink so far
  res,      \* "run" | "ok" | "err"
  why,      \* why decoding ended (coverage, export)
  fab,      \* sticky: a window read hit a cell that was never written
  tw,       \* declarative twin: [cs |-> LzmaCoding state, v |-> "run"|"ok"|"err"|"lenient"]
  prog      \* history of symbols offered (export only; hidden by VIEW)

vars == <<par, st, rep, buf, cursor, len, sink, res, why, fab, tw, prog>>
view == <<par, st, rep, buf, cursor, len, sink, res, why, fab, tw>>

Min(a, b) == IF a < b THEN a ELSE b

\* ------------------------------------------------------------------------
\* LzCircularBuffer, transcribed.  w = [buf, cursor, len, sink, err, fab]
\* ------------------------------------------------------------------------
W0 == [buf |-> buf, cursor |-> cursor, len |-> len, sink |-> sink, err |-> FALSE, fab |-> fab]

\* fn get(&self, index) -> u8 { *self.buf.get(index).unwrap_or(&0) }
Get(w, i) == IF i < Len(w.buf) THEN w.buf[i + 1] ELSE 0
Fab(w, i) == i >= Len(w.buf)

RECURSIVE Zeros(_)
Zeros(n) == IF n <= 0 THEN <<>> ELSE <<0>> \o Zeros(n - 1)

\* fn set(&mut self, index, value): grow to index+1 iff needed and allowed by memlimit
Set(w, i, b) ==
  LET newLen == i + 1 IN
  IF Len(w.buf) < newLen
  THEN IF newLen <= par.M
       THEN [w EXCEPT !.buf = [(w.buf \o Zeros(newLen - Len(w.buf))) EXCEPT ![i + 1] = b]]
       ELSE [w EXCEPT !.err = TRUE]
  ELSE [w EXCEPT !.buf[i + 1] = b]

\* fn append_literal: set(cursor), cursor += 1, len += 1, flush whole buffer when cursor == dict_size
AppendLit(w, b) ==
  LET w1 == Set(w, w.cursor, b) IN
  IF w1.err THEN w1
  ELSE LET c1 == w1.cursor + 1 IN
       IF c1 = par.D
       THEN [w1 EXCEPT !.cursor = 0, !.len = @ + 1, !.sink = @ \o w1.buf]
       ELSE [w1 EXCEPT !.cursor = c1, !.len = @ + 1]

RECURSIVE CopyLoop(_, _, _)
CopyLoop(w, offset, n) ==
  IF n = 0 \/ w.err THEN w
  ELSE LET x  == Get(w, offset)
           w1 == AppendLit([w EXCEPT !.fab = @ \/ Fab(w, offset)], x)
           o1 == IF offset + 1 = par.D THEN 0 ELSE offset + 1
       IN CopyLoop(w1, o1, n - 1)

\* fn append_lz(len, dist)
AppendLz(w, n, dist) ==
  IF dist > par.D THEN [w EXCEPT !.err = TRUE]
  ELSE IF dist > w.len THEN [w EXCEPT !.err = TRUE]
  ELSE CopyLoop(w, (par.D + w.cursor - dist) % par.D, n)

\* fn last_n(dist) -> Result<u8>   (only the error/fabrication side matters here)
LastNErr(w, dist) == dist > par.D \/ dist > w.len
LastNFab(w, dist) == ~LastNErr(w, dist) /\ Fab(w, (par.D + w.cursor - dist) % par.D)

\* ------------------------------------------------------------------------
\* state updates, by the Rust formulas (the format's tables are in LzmaCoding)
\* ------------------------------------------------------------------------
LitState(s)   == IF s < 4 THEN 0 ELSE IF s < 10 THEN s - 3 ELSE s - 6
MatchState(s) == IF s < 7 THEN 7 ELSE 10
RepState(s)   == IF s < 7 THEN 8 ELSE 11
ShortState(s) == IF s < 7 THEN 9 ELSE 11
\* for i in (0..idx).rev() { rep[i+1] = rep[i] }; rep[0] = dist     (1-based here)
RepRotate(r, idx) ==
  LET dist == r[idx + 1] IN
  [j \in 1..4 |-> IF j = 1 THEN dist ELSE IF j <= idx + 1 THEN r[j - 1] ELSE r[j]]

\* ------------------------------------------------------------------------
\* declarative twin
\* ------------------------------------------------------------------------
MemNeed(c) == Min(par.D, Len(c.out))
TwStep(s) ==
  IF ~ValidD(tw.cs, s, par.D) THEN [tw EXCEPT !.v = "err"]
  ELSE LET c1 == Apply(tw.cs, s) IN
       IF MemNeed(c1) > par.M THEN [tw EXCEPT !.v = "err"]   \* history kept at last valid point
       ELSE [tw EXCEPT !.cs = c1]

SizeReached == par.size # -1 /\ len >= par.size

Commit(w, s, nst, nrep, cause) ==
  /\ prog' = Append(prog, s)
  /\ tw' = TwStep(s)
  /\ fab' = w.fab
  /\ IF w.err
     THEN /\ res' = "err" /\ why' = cause
          /\ UNCHANGED <<st, rep>>
          /\ buf' = w.buf /\ cursor' = w.cursor /\ len' = w.len /\ sink' = w.sink
     ELSE /\ st' = nst /\ rep' = nrep
          /\ buf' = w.buf /\ cursor' = w.cursor /\ len' = w.len /\ sink' = w.sink
          /\ UNCHANGED <<res, why>>
  /\ UNCHANGED par

Running == res = "run" /\ ~SizeReached

\* ---- one action per symbol kind (process_next_inner with update = true) ----
DecodeLit(b) ==
  /\ Running
  /\ LET s == [k |-> "lit", b |-> b] IN
     IF st >= 7 /\ LastNErr(W0, rep[1] + 1)
     THEN Commit([W0 EXCEPT !.err = TRUE], s, st, rep, "matchbyte")
     ELSE LET w0 == IF st >= 7 THEN [W0 EXCEPT !.fab = @ \/ LastNFab(W0, rep[1] + 1)] ELSE W0
              w  == AppendLit(w0, b)
          IN Commit(w, s, LitState(st), rep, "mem")

DecodeMatch(d, n) ==
  /\ Running
  /\ LET s    == [k |-> "match", d |-> d, n |-> n]
         nrep == <<d - 1, rep[1], rep[2], rep[3]>>
         w    == AppendLz(W0, n, d)
     IN Commit(w, s, MatchState(st), nrep, IF LastNErr(W0, d) THEN "dist" ELSE "mem")

DecodeShort ==
  /\ Running
  /\ LET w == AppendLz(W0, 1, rep[1] + 1)
     IN Commit(w, [k |-> "short"], ShortState(st), rep, IF LastNErr(W0, rep[1] + 1) THEN "dist" ELSE "mem")

DecodeRep(r, n) ==
  /\ Running
  /\ LET nrep == IF r = 0 THEN rep ELSE RepRotate(rep, r)
         w    == AppendLz(W0, n, nrep[1] + 1)
     IN Commit(w, [k |-> "rep", r |-> r, n |-> n], RepState(st), nrep, IF LastNErr(W0, nrep[1] + 1) THEN "dist" ELSE "mem")

\* fn finish(): write buf[0..cursor), flush
Flushed == sink \o SubSeq(buf, 1, cursor)

\* end marker: Finished -> leave the loop -> final size check -> output.finish()
DecodeEos ==
  /\ Running
  /\ prog' = Append(prog, [k |-> "eos"])
  /\ IF par.size # -1
     THEN /\ res' = "err" /\ why' = "eos-before-size" /\ UNCHANGED sink      \* len # size
          /\ tw' = [tw EXCEPT !.v = "err"]
     ELSE /\ res' = "ok" /\ why' = "eos" /\ sink' = Flushed
          /\ tw' = [tw EXCEPT !.v = "ok"]
  /\ UNCHANGED <<par, st, rep, buf, cursor, len, fab>>

\* loop head: declared size reached -> break; final check len == size
StopAtSize ==
  /\ res = "run" /\ SizeReached
  /\ IF len = par.size
     THEN res' = "ok" /\ why' = "size" /\ sink' = Flushed /\ tw' = [tw EXCEPT !.v = IF Len(tw.cs.out) = par.size THEN "ok" ELSE "err"]
     ELSE res' = "err" /\ why' = "overshoot" /\ UNCHANGED sink /\ tw' = [tw EXCEPT !.v = "err"]
  /\ UNCHANGED <<par, st, rep, buf, cursor, len, fab, prog>>

\* input ends here (the encoder flushed after the last symbol)
\*  - size in effect and not reached: the decoder needs bytes that are not there -> error
\*    (modulo "phantom" symbols that need no input: decided at byte level by the harness)
\*  - no size: range coder is clean (code = 0) at EOF -> accepted WITHOUT marker.
\*    This is lzma-rs's documented leniency, modelled as a named action and not
\*    asserted either way by any property ("lenient").
InputEnds ==
  /\ Running
  /\ IF par.size # -1
     THEN res' = "err" /\ why' = "truncated" /\ UNCHANGED sink /\ tw' = [tw EXCEPT !.v = "err"]
     ELSE res' = "ok" /\ why' = "clean-end-without-marker" /\ sink' = Flushed /\ tw' = [tw EXCEPT !.v = "lenient"]
  /\ UNCHANGED <<par, st, rep, buf, cursor, len, fab, prog>>

Done == res # "run" /\ UNCHANGED vars

\* ------------------------------------------------------------------------
\* invariants
\* ------------------------------------------------------------------------
IsPrefixOf(a, b) == Len(a) <= Len(b) /\ SubSeq(b, 1, Len(a)) = a

\* while decoding, flushed sink ++ live part of the window is exactly the history
Refines      == res = "run" => Flushed = tw.cs.out /\ len = Len(tw.cs.out)
\* implementation automaton = format tables
StateEq      == res = "run" => st = tw.cs.st /\ rep = tw.cs.rep
NoFabrication == ~fab
BufBound     == Len(buf) <= par.M /\ Len(buf) <= par.D /\ (res = "run" => Len(buf) = Min(len, par.D))
SinkPrefix   == IsPrefixOf(sink, tw.cs.out)
\* verdicts agree with the declarative rules; success delivers exactly the history
Verdict      == /\ (res = "err") = (tw.v = "err")
                /\ (res = "ok") = (tw.v \in {"ok", "lenient"})
                /\ (res = "ok" => sink = tw.cs.out)
SizeRule     == (res = "ok" /\ par.size # -1) => Len(sink) = par.size
CursorRange  == cursor \in 0..(par.D - 1) /\ cursor <= Len(buf)
====

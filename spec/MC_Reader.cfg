SPECIFICATION Spec
CONSTANTS
  MaxLen = 5
  Limits = {0, 1, 2, 3}
  NBs = {0, 1, 2}
INVARIANTS FragIndependent Protocol
PROPERTY Terminates
CHECK_DEADLOCK FALSE

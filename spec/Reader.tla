---- MODULE Reader ----
(***************************************************************************)
(* The input side of lzma-rs: a BufRead source that may expose its data in  *)
(* arbitrary fragments, and the helper loops the decoders build on it       *)
(* (decode/util.rs is_eof, flush_zero_padding, read_tag; std's read_exact;  *)
(* io::Take as used for the block header and for LZMA2 chunks).             *)
(*                                                                         *)
(* The source: `data` (a sequence of byte classes: 0 = zero byte, 1 = any   *)
(* other), `pos` = bytes consumed, `win` = bytes currently exposed by the   *)
(* last fill_buf (a BufRead may expose any non-empty prefix of what is      *)
(* left; empty only at EOF).  Protocol: consume(k) needs k <= win.          *)
(*                                                                         *)
(* A small "parser program" runs against it - the tail of the block header  *)
(* (zero-padding scan inside Take(limit)), a run of read_exact(1) calls     *)
(* like the range decoder makes, and the final is_eof test - written as the *)
(* loops the Rust code contains.  FragIndependent: verdict and (on success) *)
(* bytes consumed are a function of the bytes only (C13).                   *)
(***************************************************************************)
EXTENDS Naturals, Integers, Sequences, TLC

VARIABLES data,   \* byte classes
          pos,    \* bytes consumed from the source
          win,    \* bytes exposed by the last fill_buf and not yet consumed
          pc,     \* program counter of the parser program
          lim,    \* remaining limit of the Take adapter
          need,   \* bytes still wanted by the running read_exact loop
          res,    \* "run" | "ok" | "err"
          ops     \* number of source calls (bounded bookkeeping)
vars == <<data, pos, win, pc, lim, need, res, ops>>

Left == Len(data) - pos
Min(a, b) == IF a < b THEN a ELSE b

\* ---- source actions: what fill_buf may expose ----
Frags == IF win > 0 THEN {win} ELSE IF Left = 0 THEN {0} ELSE 1..Left

\* ---- the parser program ----
\* pc = "pad":  Take(lim).flush_zero_padding()     then "bytes"
\* pc = "bytes": read_exact(1) x NB                 then "eof"
\* pc = "eof":  is_eof()                            then done
AllZero(a, n) == \A i \in (a + 1)..(a + n) : data[i] = 0

PadStep ==
  /\ res = "run" /\ pc = "pad"
  /\ \E f \in Frags :
       LET v == Min(f, lim) IN     \* Take::fill_buf: at most `limit` bytes of the inner buffer
       IF lim = 0 \/ v = 0
       THEN \* empty buffer: padding scan complete
            /\ pc' = "bytes" /\ win' = f /\ UNCHANGED <<pos, lim, res>>
       ELSE IF ~AllZero(pos, v)
            THEN res' = "err" /\ win' = f /\ UNCHANGED <<pos, pc, lim>>
            ELSE \* consume(len)
                 /\ pos' = pos + v /\ win' = f - v /\ lim' = lim - v /\ UNCHANGED <<pc, res>>
  /\ ops' = ops + 1 /\ UNCHANGED <<data, need>>

\* read_exact(1): read() may return fewer bytes than asked; 0 bytes before `need` is met = UnexpectedEof
ByteStep ==
  /\ res = "run" /\ pc = "bytes"
  /\ IF need = 0 THEN pc' = "eof" /\ UNCHANGED <<pos, win, res, need>>
     ELSE \E f \in Frags :
            IF f = 0 THEN res' = "err" /\ UNCHANGED <<pos, win, pc, need>>
            ELSE pos' = pos + 1 /\ win' = f - 1 /\ need' = need - 1 /\ UNCHANGED <<pc, res>>
  /\ ops' = ops + 1 /\ UNCHANGED <<data, lim>>

EofStep ==
  /\ res = "run" /\ pc = "eof"
  /\ \E f \in Frags : res' = (IF f = 0 THEN "ok" ELSE "err") /\ win' = f
  /\ ops' = ops + 1 /\ UNCHANGED <<data, pos, pc, lim, need>>

Next == PadStep \/ ByteStep \/ EofStep \/ (res # "run" /\ UNCHANGED vars)

\* ---- reference: the same program on the bytes, no reader at all ----
Ref(d, L, NB) ==
  LET p == Min(L, Len(d)) IN
  IF ~(\A i \in 1..p : d[i] = 0) THEN [v |-> "err", c |-> 0]
  ELSE IF Len(d) - p < NB THEN [v |-> "err", c |-> 0]
  ELSE IF Len(d) - p - NB > 0 THEN [v |-> "err", c |-> 0]
  ELSE [v |-> "ok", c |-> p + NB]
====

SPECIFICATION Spec
CONSTANTS
  Pieces <- PiecesQuick
  Buggy = "none"
INVARIANTS Contract NoCallAfterFailure
CHECK_DEADLOCK FALSE

SPECIFICATION Spec
CONSTANTS
  Pieces <- PiecesQuick
  Buggy = "none"
INVARIANTS Contract NoCallAfterFailure Emit
CHECK_DEADLOCK FALSE

SPECIFICATION Spec
CONSTANTS
  MaxSyms = 2
  ExactLen = FALSE
  PropSet <- PropsAll
  Lits = {0, 97, 255}
  Dists = {1, 2, 5, 9}
  Lens = {2, 9, 10, 18, 273}
  RepLens = {2, 17}
INVARIANTS IndexBounds StateRange AutomatonOK Emit
CHECK_DEADLOCK FALSE

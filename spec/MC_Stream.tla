---- MODULE MC_Stream ----
(***************************************************************************)
(* Exhaustive instance of Stream with scaled constants: every stream shape  *)
(* of the bounded family x every composition of the input into write calls  *)
(* (including empty ones) x finish at any moment.                           *)
(***************************************************************************)
EXTENDS Stream, FiniteSets
CONSTANTS MaxSyms, MaxCost, Hdrs

\* all sequences over S of length 0..n
RECURSIVE SeqsUpTo(_, _)
SeqsUpTo(S, n) == IF n = 0 THEN {<<>>} ELSE LET P == SeqsUpTo(S, n - 1) IN P \cup {Append(q, x) : q \in {r \in P : Len(r) = n - 1}, x \in S}

RECURSIVE SumC(_, _)
SumC(q, i) == IF i = 0 THEN 0 ELSE SumC(q, i - 1) + q[i][1]
RECURSIVE SumO(_, _)
SumO(q, i) == IF i = 0 THEN 0 ELSE SumO(q, i - 1) + q[i][2]

\* a shape from: header length, header error, list of <<cost, out>>, kind of the last symbol,
\* clean flag after the last symbol, size in effect, total bytes, allow_incomplete
Mk(h, he, q, lastKind, zl, size, total, inc) ==
  [hdr |-> h, hdrErr |-> he,
   sym |-> [i \in 1..Len(q) |-> [c |-> q[i][1], o |-> IF i = Len(q) /\ lastKind = "eos" THEN 0 ELSE q[i][2],
                                 k |-> IF i = Len(q) THEN lastKind ELSE "ok",
                                 z |-> IF i = Len(q) THEN zl ELSE FALSE,
                                 cb |-> SumC(q, i),
                                 co |-> IF i = Len(q) /\ lastKind = "eos" THEN SumO(q, i - 1) ELSE SumO(q, i)]],
   z0 |-> (Len(q) = 0 /\ zl), size |-> size, total |-> total, inc |-> inc]

Costs == SeqsUpTo((0..MaxCost) \X {1, 2}, MaxSyms)
\* (a UNION over ~10^5 records is quadratic in TLC's constant preprocessing: choose the
\*  components in Init instead)
Init ==
  /\ \E h \in Hdrs, q \in Costs, he \in BOOLEAN, zl \in BOOLEAN :
       /\ (he => (q = <<>> /\ zl))
       /\ \E lk \in (IF Len(q) = 0 THEN {"ok"} ELSE IF zl THEN {"ok", "eos"} ELSE {"ok", "eos", "errReal", "errBoth"}),
             size \in ({-1, SumO(q, Len(q)), SumO(q, Len(q)) + 1} \cup (IF SumO(q, Len(q)) > 0 THEN {SumO(q, Len(q)) - 1} ELSE {})),
             total \in 0..(h + Pre + SumC(q, Len(q)) + 2) :
               sd = Mk(h, he, q, lk, zl, size, total, FALSE)
  /\ SInit
Next == (\E n \in 0..(sd.total - offered) : Write(n)) \/ Finish \/ (verdict # "none" /\ UNCHANGED vars)
Spec == Init /\ [][Next]_vars
====

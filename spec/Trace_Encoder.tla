---- MODULE Trace_Encoder ----
(***************************************************************************)
(* Trace validation for Encoder: no hook is needed - the bytes an encoder   *)
(* emits ARE its trace.  The harness parses each real output of             *)
(* lzma_compress / lzma2_compress / xz_compress back into header fields,    *)
(* symbols (reference decoder), chunks and container fields, and TLC        *)
(* compares them with the abstract output Encoder.tla prescribes for that   *)
(* input length, option and source fragmentation.                          *)
(***************************************************************************)
EXTENDS Encoder, Json, IOUtils
Rec == ndJsonDeserialize(IOEnv.TRACE)
VARIABLE l
TInit == l = 1
IsEv(e) == l <= Len(Rec) /\ Rec[l].ev = e /\ l' = l + 1
\* .lzma: header fields, number of literals, marker presence; for short inputs the full symbol list
TLzma == /\ IsEv("lzma")
         /\ LET r == Rec[l]  o == LzmaOut(r.input, r.opt) IN
            /\ r.hdrLen = o.hdrLen /\ r.props = o.props /\ r.dict = o.dict
            /\ r.sizeField = (IF r.opt = "size" THEN r.n ELSE o.sizeField)
            /\ r.eos = (r.opt = "marker")
            /\ r.nlit = r.n
            /\ (r.full => r.syms = o.syms)
TLzma2 == /\ IsEv("lzma2")
          /\ LET r == Rec[l] IN
             /\ r.chunkLens = ChunkLens(r.reads)
             /\ \A i \in 1..Len(r.resets) : r.resets[i]
             /\ r.total = L2BytesOfLens(ChunkLens(r.reads))
TXz == /\ IsEv("xz")
       /\ LET r == Rec[l]  x == XzOutN(r.n, r.reads) IN
          /\ r.check = x.check /\ r.hsize = x.hsize /\ r.l2len = x.l2len /\ r.blockPad = x.blockPad
          /\ r.idxN = x.idxN /\ r.idxUnpadded = x.idxUnpadded /\ r.idxUnpacked = x.idxUnpacked
          /\ r.idxPad = x.idxPad /\ r.backward = x.backward /\ r.idxSize = x.idxSize
TNext == TLzma \/ TLzma2 \/ TXz
TSpec == TInit /\ [][TNext]_l
Accepted ==
  LET d == TLCGet("stats").diameter IN
  IF d - 1 = Len(Rec) THEN PrintT(<<"TRACE-ACCEPTED", Len(Rec)>>)
  ELSE PrintT(<<"TRACE-REJECTED at line", d, [ev |-> Rec[d].ev, n |-> Rec[d].n]>>) /\ FALSE
====

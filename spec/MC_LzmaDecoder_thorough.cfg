SPECIFICATION Spec
CONSTANTS
  Inf = 1000000
  MaxSyms = 5
  Ds = {1, 2, 3, 4}
  Ms = {0, 1, 2, 3, 4, 1000000}
  Sizes <- SizesThorough
  Lits = {1, 2}
  Dists = {1, 2, 3, 4, 5, 1000}
  Lens = {2, 3}
  RepLens = {2}
INVARIANTS Refines StateEq NoFabrication BufBound SinkPrefix Verdict SizeRule CursorRange Emit
PROPERTY Terminates
CHECK_DEADLOCK FALSE

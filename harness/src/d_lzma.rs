//! Driver for the LZMA layer (C01, C08, C09, C10): replays behaviours exported by TLC
//! from MC_LzmaCoding / MC_LzmaDecoder and long walks of the transcribed spec into the
//! real decoders (raw, one-shot, streaming) and compares the contract.

use crate::api::{self, Opt, Verdict};
use crate::build::lzma_header;
use crate::coding::{self, Ctx, Dec, Probs, Props, Sym, CS, T};
use crate::kernel::RangeEnc;
use crate::oracle::{expect_lzma, expect_payload, Exp, Expect};
use crate::report::{hash_of, hex, is_prefix, unhex, Report};
use rand::rngs::StdRng;
use rand::{Rng, SeedableRng};
use serde::{Deserialize, Serialize};
use serde_json::{json, Value};
use std::io::BufRead;

#[derive(Clone, Debug, Serialize, Deserialize, Default)]
pub struct SpecPred {
    pub res: String,
    pub why: String,
    pub out: Vec<u8>,
}

#[derive(Clone, Debug, Serialize, Deserialize)]
pub struct LzmaCase {
    pub api: String,
    pub props: Props,
    pub dict: u32,
    pub prog: Vec<Sym>,
    #[serde(default)]
    pub size_field: Option<u64>,
    pub opt: Opt,
    #[serde(default)]
    pub raw_size: Option<u64>,
    #[serde(default)]
    pub memlimit: Option<u64>,
    #[serde(default)]
    pub trailing: String,
    #[serde(default)]
    pub truncate: Option<usize>,
    #[serde(default)]
    pub cuts: Vec<usize>,
    #[serde(default)]
    pub data_hex: Option<String>,
    #[serde(default)]
    pub spec: Option<SpecPred>,
    #[serde(default)]
    pub origin: String,
}

impl LzmaCase {
    pub fn payload(&self) -> Vec<u8> {
        let e = coding::encode_program(&self.prog, self.props);
        let mut p = e.payload;
        if let Some(t) = self.truncate {
            p.truncate(t);
        }
        p
    }
    pub fn bytes(&self) -> Vec<u8> {
        if let Some(h) = &self.data_hex {
            return unhex(h);
        }
        let mut d = if self.api == "raw" {
            vec![]
        } else if self.opt.header_len() == 13 {
            lzma_header(self.props, self.dict, Some(self.size_field.unwrap_or(u64::MAX)))
        } else {
            lzma_header(self.props, self.dict, None)
        };
        d.extend_from_slice(&self.payload());
        d.extend_from_slice(&unhex(&self.trailing));
        d
    }
    pub fn expect(&self, data: &[u8]) -> Expect {
        if self.api == "raw" {
            expect_payload(data, self.props, self.dict as u64, self.raw_size, self.memlimit)
        } else {
            expect_lzma(data, self.opt, self.memlimit)
        }
    }
}

pub struct Obs {
    pub verdict: Verdict,
    pub out: Vec<u8>,
    pub msg: String,
    pub consumed: Option<usize>,
    pub zero_progress: bool,
}

pub fn run_real(c: &LzmaCase, data: &[u8]) -> Obs {
    let ml = c.memlimit.map(|m| m as usize);
    match c.api.as_str() {
        "raw" => {
            let (o, cons) = api::raw_lzma(data, c.props.lc, c.props.lp, c.props.pb, c.dict, c.raw_size, ml);
            Obs {
                verdict: o.verdict,
                out: o.out,
                msg: o.msg,
                consumed: Some(cons),
                zero_progress: false,
            }
        }
        "oneshot" => {
            let (o, cons) = api::lzma_bytes_consumed(data, &api::options(c.opt, ml, false));
            Obs {
                verdict: o.verdict,
                out: o.out,
                msg: o.msg,
                consumed: Some(cons),
                zero_progress: false,
            }
        }
        "stream" => {
            let r = api::stream_run(data, &c.cuts, &api::options(c.opt, ml, false));
            Obs {
                verdict: r.verdict,
                out: r.out,
                msg: r.msg,
                consumed: None,
                zero_progress: r.zero_progress_at.is_some(),
            }
        }
        other => panic!("unknown api {}", other),
    }
}

/// Contract comparison.  Returns (clause, description) pairs; the clause names say which property's text states it:
///   "panic"        every property of a decoder (a panic is never a permitted outcome)
///   "accept-valid" well-formed / in-limit input must decode          C01, C05, C08 (size / marker endings), C10 (limit not exceeded)
///   "exact-output" bytes delivered on success                        C01, C05, C08, C09 (no fabricated bytes), C10
///   "consumed"     reader position after success                     C11, C08 (header byte counts)
///   "reject:<class>" an input the rules make an error                C08 (truncated, eos-before-size, overshoot, bytes-after-eos),
///                                                                    C11 (bytes-after-eos), C09 (dist), C10 (mem(..));
///                                                                    header-short / props / preamble-short: no listed property
///   "sink-after-error" what the sink holds after a rejection         C09 (never fabricates), C12
pub fn compare(c: &LzmaCase, e: &Expect, o: &Obs, check_consumed: bool) -> Vec<(String, String)> {
    let mut v: Vec<(String, String)> = vec![];
    if o.verdict == Verdict::Panic {
        // a panic is neither success nor an error value: it breaks the property that promises one of the two for this
        // input - and no other (C07 owns every panic)
        let under = match e.v {
            Exp::Ok => "accept-valid".to_string(),
            Exp::Err => format!("reject:{}", e.class),
            Exp::Any => "open".to_string(),
        };
        v.push((format!("panic:{}", under), format!("panic: {}", o.msg)));
        return v;
    }
    match e.v {
        Exp::Ok => {
            if o.verdict != Verdict::Ok {
                v.push(("accept-valid".into(), format!("expected Ok ({}), got Err: {}", e.class, o.msg)));
            } else if o.out != e.out {
                let clause = if o.out.len() != e.out.len() { "output-length" } else { "exact-output" };
                v.push((clause.into(), format!(
                    "output differs from what the format defines: expected {} bytes, got {} bytes (first difference at {})",
                    e.out.len(),
                    o.out.len(),
                    first_diff(&e.out, &o.out)
                )));
            } else if check_consumed {
                if let (Some(a), Some(b)) = (e.consumed, o.consumed) {
                    if a != b {
                        v.push(("consumed".into(), format!("consumed {} input bytes, the payload ends at {}", b, a)));
                    }
                }
            }
        }
        Exp::Err => {
            if o.verdict == Verdict::Ok {
                v.push((format!("reject:{}", e.class), format!("expected Err ({}), got Ok with {} bytes", e.class, o.out.len())));
            } else if !is_prefix(&o.out, &e.out) {
                v.push(("sink-after-error".into(), format!("sink after error is not a prefix of the valid output ({})", e.class)));
            }
        }
        Exp::Any => {
            if o.verdict == Verdict::Ok && o.out.len() != e.out.len() && (e.class == "size-reached-coder-not-at-rest" || e.class == "truncated-behind-last-bit") {
                // whether such an input is accepted is open, but a size IS in effect: "success implies exactly that
                // many bytes were produced"
                v.push(("output-length".into(), format!("accepted with {} bytes although a size of {} bytes is in effect", o.out.len(), e.out.len())));
            } else if o.verdict == Verdict::Ok && o.out != e.out {
                v.push(("exact-output".into(), format!("accepted ({}) but output differs from the decoded symbols", e.class)));
            } else if !is_prefix(&o.out, &e.out) {
                v.push(("sink-after-error".into(), format!("sink is not a prefix of the decoded symbols ({})", e.class)));
            }
        }
    }
    let _ = c;
    v
}

/// Does the text of `prop` state the clause?
pub fn owns_clause(prop: &str, clause: &str) -> bool {
    let is = |ps: &[&str]| ps.contains(&prop);
    if let Some(under) = clause.strip_prefix("panic:") {
        // C07 (totality) and C16 ("no sequence of calls panics") own every panic; any other property owns it when it
        // promises an outcome for this input
        return is(&["C07", "C16"]) || (under != "open" && owns_clause(prop, under));
    }
    if clause == "accept-valid" {
        // C08: "a caller-supplied size always overrides the header field", "decoding runs to the end marker";
        // C10: "behaves exactly as without a limit" (judged against the unlimited run, see check_case)
        return is(&["C01", "C05", "C08", "C10", "C15"]);
    }
    if clause == "exact-output" {
        // (C08 speaks about the NUMBER of bytes produced: "output-length" below)
        return is(&["C01", "C05", "C09", "C10"]);
    }
    if clause == "output-length" {
        return is(&["C01", "C05", "C08", "C09", "C10"]);
    }
    if clause == "consumed" {
        // (C08's own clause about input is the number of HEADER bytes, observed through LzmaParams::read_header)
        return is(&["C11"]);
    }
    if clause == "header-bytes" {
        return is(&["C08"]);
    }
    if clause == "sink-after-error" {
        return is(&["C09", "C12"]);
    }
    if clause == "stream-vs-oneshot" {
        return is(&["C05"]);
    }
    if let Some(class) = clause.strip_prefix("reject:") {
        if class.starts_with("mem(") {
            return is(&["C10"]);
        }
        return match class {
            "dist" => is(&["C09"]),
            "bytes-after-eos" => is(&["C08", "C11", "C05"]),
            "truncated" | "eos-before-size" | "overshoot" => is(&["C08", "C05"]),
            _ => false, // header-short, props, preamble-short: rejection not stated by a listed property
        };
    }
    false
}

fn first_diff(a: &[u8], b: &[u8]) -> usize {
    a.iter().zip(b.iter()).position(|(x, y)| x != y).unwrap_or(a.len().min(b.len()))
}

/// Check one case; used by generators and by `replay`.
pub fn check_case(c: &LzmaCase, prop: &str, rep: &mut Report) -> bool {
    let data = c.bytes();
    let e = c.expect(&data);
    // consistency with the TLC prediction, when there is one
    if let Some(sp) = &c.spec {
        let consistent = match (sp.res.as_str(), sp.why.as_str()) {
            ("ok", "clean-end-without-marker") => e.v == Exp::Any || e.v == Exp::Ok,
            ("ok", _) => (e.v == Exp::Ok || e.class == "size-reached-coder-not-at-rest") && e.out == sp.out,
            ("err", "truncated") => true, // phantom symbols possible: byte level decides
            ("err", _) => e.v == Exp::Err,
            _ => false,
        };
        if !consistent {
            rep.tool_error(format!(
                "oracle disagreement: TLC says {}/{} but the reference decoder says {:?}/{} for {}",
                sp.res,
                sp.why,
                e.v,
                e.class,
                serde_json::to_string(c).unwrap()
            ));
            return false;
        }
    }
    let o = run_real(c, &data);
    let check_consumed = prop == "C11";
    let mut vs: Vec<String> = vec![];
    let mut skip_rest = false;
    // raw decoder with a dictionary below 4096: the properties fix the HEADER rule only ("below 4096 behaves as
    // 4096"); a raw constructor may keep the size it is given, raise it to 4096, or refuse it.  Judge against both
    // readings of "the dictionary size in effect", and not at all when the constructor refuses.
    let mut e = e;
    if c.api == "raw" && c.dict < 4096 {
        use lzma_rs::decompress::raw::{LzmaDecoder, LzmaParams, LzmaProperties};
        let refused = crate::io::catch(|| LzmaDecoder::new(LzmaParams::new(LzmaProperties { lc: c.props.lc, lp: c.props.lp, pb: c.props.pb }, c.dict, c.raw_size), None).is_err());
        if matches!(refused, crate::io::Caught::Done(true) | crate::io::Caught::Panic(_)) && c.dict > 0 {
            rep.count("raw_small_dict_refused_by_constructor");
            skip_rest = true;
        } else if compare(c, &e, &o, false).iter().any(|(k, _)| k != "panic") {
            let e2 = expect_payload(&data, c.props, 4096, c.raw_size, c.memlimit);
            if compare(c, &e2, &o, false).is_empty() {
                rep.count("raw_small_dict_behaves_as_4096");
                e = e2;
            }
        }
    }
    if !skip_rest {
        for (clause, d) in compare(c, &e, &o, check_consumed) {
            let mut mine = owns_clause(prop, &clause);
            // C01 and C09 are about the one-shot and raw decoders (and LZMA2 / XZ for C09): what the incremental decoder
            // does with the same bytes is C05's text
            if mine && c.api == "stream" && ["C01", "C09"].contains(&prop) && !clause.starts_with("panic") {
                mine = false;
            }
            // C10 is stated relative to the run WITHOUT a limit ("behaves exactly as without a limit"): a deviation
            // from the format that the unlimited run shows as well is C01's, not C10's
            if mine && prop == "C10" && c.memlimit.is_some() && ["accept-valid", "exact-output", "output-length"].contains(&clause.as_str()) {
                let mut c0 = c.clone();
                c0.memlimit = None;
                let o0 = run_real(&c0, &data);
                if o0.verdict == o.verdict && o0.out == o.out {
                    mine = false;
                }
            }
            if mine {
                vs.push(d);
            } else {
                rep.drift(format!("(clause '{}' of another property, seen while checking {}) {}", clause, prop, d), json!({"origin": c.origin}));
            }
        }
    }
    if o.zero_progress && c.api == "stream" {
        // Ok(0) on a non-empty piece is legal only once the size in effect has been reached
        let size = crate::oracle::size_in_effect(c.opt, c.size_field);
        let legal = matches!(size, Some(s) if o.out.len() as u64 >= s) || e.v != Exp::Ok;
        if !legal {
            let d = "write returned Ok(0) for non-empty input while decoding was still in progress".to_string();
            if ["C05"].contains(&prop) {
                vs.push(d);
            } else {
                rep.drift(format!("(clause of another property, seen while checking {}) {}", prop, d), json!({"origin": c.origin}));
            }
        }
    }
    // the raw decoder object is reusable: every other case is decoded again on an object that first decoded a
    // stream with matches and an end marker (rep history, state and probabilities all used) and was reset
    if vs.is_empty() && c.api == "raw" && o.verdict != Verdict::Panic && data.len() % 2 == 0 {
        let warm_prog = vec![Sym::Lit { b: 1 }, Sym::Lit { b: 2 }, Sym::Lit { b: 3 }, Sym::Match { d: 3, n: 4 }, Sym::Match { d: 2, n: 2 }, Sym::Rep { r: 1, n: 3 }, Sym::Lit { b: 9 }, Sym::Eos];
        let warm = coding::encode_program(&warm_prog, c.props).payload;
        let ml = c.memlimit.map(|m| m as usize);
        let (o2, cons2) = api::raw_lzma_reused(&data, c.props.lc, c.props.lp, c.props.pb, c.dict, c.raw_size, ml, &warm);
        if o2.verdict == Verdict::Panic {
            let d = format!("panic on a reset LzmaDecoder: {}", o2.msg);
            if prop == "C14" || prop == "C07" {
                vs.push(d);
            } else {
                rep.drift(format!("(C14 clause seen while checking {}) {}", prop, d), json!({"origin": c.origin}));
            }
        } else if o2.verdict != o.verdict || (o2.verdict == Verdict::Ok && (o2.out != o.out || Some(cons2) != o.consumed)) {
            // "reset = new" is C14's text: under the other properties it is shape-tier information
            let d = format!("a reset LzmaDecoder that decoded another stream before gives {:?} ({} bytes) where a new one gives {:?} ({} bytes): {}", o2.verdict, o2.out.len(), o.verdict, o.out.len(), o2.msg);
            if prop == "C14" {
                vs.push(d);
            } else {
                rep.drift(format!("(C14 clause seen while checking {}) {}", prop, d), json!({"origin": c.origin}));
            }
        }
    }
    rep.count(&format!("class:{}", e.class));
    if e.v == Exp::Any {
        rep.dontcare += 1;
    }
    let nontrivial = e.nsyms >= 1 || e.v == Exp::Err;
    rep.eval(hash_of(&(hex(&data), &c.api, c.memlimit, format!("{:?}", c.opt), c.raw_size, &c.cuts)), nontrivial);
    if !vs.is_empty() {
        let mut cj = serde_json::to_value(c).unwrap();
        cj["kind"] = json!("lzma");
        cj["predicted"] = json!({"verdict": format!("{:?}", e.v), "class": e.class, "out_len": e.out.len()});
        cj["observed"] = json!({"verdict": format!("{:?}", o.verdict), "out_len": o.out.len(), "msg": o.msg});
        cj["input_hex"] = json!(hex(&data[..data.len().min(4096)]));
        rep.violation(prop, vs.join("; "), cj);
        return false;
    }
    true
}

// ---------------------------------------------------------------- TLC exports

#[derive(Deserialize)]
struct TlcCase {
    #[serde(rename = "D")]
    d: u32,
    #[serde(rename = "M")]
    m: u64,
    size: i64,
    prog: Vec<Sym>,
    res: String,
    why: String,
    out: Vec<u8>,
}

pub const INF: u64 = 1_000_000;

/// Lines of the form  <<"CASE", "{json}">>  printed by TLC.
pub fn tlc_json_lines(path: &str, tag: &str) -> Vec<String> {
    let f = std::fs::File::open(path).unwrap_or_else(|e| panic!("open {}: {}", path, e));
    let mut v = vec![];
    let pre = format!("<<\"{}\", \"", tag);
    for l in std::io::BufReader::new(f).lines() {
        let l = l.unwrap();
        if let Some(rest) = l.strip_prefix(&pre) {
            if let Some(body) = rest.strip_suffix("\">>") {
                // TLC prints the string with escaped quotes
                v.push(body.replace("\\\"", "\"").replace("\\\\", "\\"));
            }
        }
    }
    v
}

fn prop_filter(prop: &str, why: &str, m: u64, size: i64) -> bool {
    match prop {
        "C01" => m == INF && matches!(why, "eos" | "size"),
        "C08" => m == INF && matches!(why, "eos" | "size" | "overshoot" | "eos-before-size" | "truncated" | "clean-end-without-marker") && (size != -1 || why == "eos" || why == "clean-end-without-marker"),
        "C09" => matches!(why, "dist" | "matchbyte"),
        "C10" => m != INF,
        _ => true,
    }
}

const PROP_ROT: [(u32, u32, u32); 8] = [(3, 0, 2), (0, 0, 0), (8, 4, 4), (0, 4, 0), (4, 0, 4), (1, 2, 3), (2, 1, 0), (8, 0, 0)];

/// Replay the MC_LzmaDecoder export.
pub fn replay_decoder_export(path: &str, prop: &str, seed: u64, limit: usize, rep: &mut Report) {
    let lines = tlc_json_lines(path, "CASE");
    rep.add("tlc_cases_in_export", lines.len() as u64);
    let mut rng = StdRng::seed_from_u64(seed);
    let mut n = 0usize;
    let mut picked: Vec<TlcCase> = vec![];
    for l in &lines {
        let t: TlcCase = match serde_json::from_str(l) {
            Ok(t) => t,
            Err(e) => {
                rep.tool_error(format!("bad TLC line: {} in {}", e, &l[..l.len().min(200)]));
                continue;
            }
        };
        if prop_filter(prop, &t.why, t.m, t.size) {
            picked.push(t);
        }
    }
    rep.add("tlc_cases_selected", picked.len() as u64);
    // if more than limit, take a seeded sample (each run covers a different slice)
    let stride = if picked.len() > limit { picked.len() as f64 / limit as f64 } else { 1.0 };
    let off: f64 = if stride > 1.0 { rng.gen::<f64>() * stride } else { 0.0 };
    let mut idx = off;
    while (idx as usize) < picked.len() && n < limit {
        let t = &picked[idx as usize];
        idx += stride;
        n += 1;
        let pr = PROP_ROT[(n + seed as usize) % PROP_ROT.len()];
        let c = LzmaCase {
            api: "raw".into(),
            props: Props { lc: pr.0, lp: pr.1, pb: pr.2 },
            dict: t.d,
            prog: t.prog.clone(),
            size_field: None,
            opt: Opt::ReadFromHeader,
            raw_size: if t.size < 0 { None } else { Some(t.size as u64) },
            memlimit: if t.m == INF { None } else { Some(t.m) },
            trailing: String::new(),
            truncate: None,
            cuts: vec![],
            data_hex: None,
            spec: Some(SpecPred {
                res: t.res.clone(),
                why: t.why.clone(),
                out: t.out.clone(),
            }),
            origin: "tlc:MC_LzmaDecoder".into(),
        };
        let ok = check_case(&c, prop, rep);
        if ok && rep.samples.len() < 3 {
            rep.sample(json!({"origin": c.origin, "D": t.d, "M": t.m, "size": t.size, "prog": t.prog, "res": t.res, "why": t.why}));
        }
    }
}

#[derive(Deserialize)]
struct TlcProg {
    lc: u32,
    lp: u32,
    pb: u32,
    prog: Vec<Sym>,
    dec: Vec<(String, u32, u32, u32)>,
    out: Vec<u8>,
}

/// Encode with the decisions TLC exported (not the transcription).
pub fn encode_tlc_decs(dec: &[(String, u32, u32, u32)]) -> Option<Vec<u8>> {
    let mut enc = RangeEnc::new();
    let mut probs = Probs::default();
    for (t, a, b, bit) in dec {
        let t = T::from_name(t)?;
        if t == T::Direct {
            enc.direct(*bit != 0);
        } else {
            enc.bit(probs.get(Ctx { t, sub: *a, node: *b }), *bit != 0);
        }
    }
    Some(enc.finish())
}

/// Replay the MC_LzmaCoding export (valid programs, marker-terminated) through the
/// one-shot API, the raw decoder and Stream; cross-check the transcription against
/// TLC's decisions.
pub fn replay_coding_export(path: &str, prop: &str, seed: u64, limit: usize, rep: &mut Report) {
    let lines = tlc_json_lines(path, "PROG");
    rep.add("tlc_progs_in_export", lines.len() as u64);
    let mut rng = StdRng::seed_from_u64(seed ^ 0x5151);
    let stride = if lines.len() > limit { lines.len() as f64 / limit as f64 } else { 1.0 };
    let mut idx: f64 = if stride > 1.0 { rng.gen::<f64>() * stride } else { 0.0 };
    let mut n = 0;
    while (idx as usize) < lines.len() && n < limit {
        let l = &lines[idx as usize];
        idx += stride;
        n += 1;
        let t: TlcProg = match serde_json::from_str(l) {
            Ok(t) => t,
            Err(e) => {
                rep.tool_error(format!("bad TLC PROG line: {}", e));
                continue;
            }
        };
        let props = Props { lc: t.lc, lp: t.lp, pb: t.pb };
        // transcription vs TLC: decisions and output must agree exactly
        let mut cs = CS::default();
        let mut mine: Vec<Dec> = vec![];
        for s in &t.prog {
            mine.extend(cs.decisions(s, props));
            cs.apply(s);
        }
        let theirs: Vec<Dec> = t
            .dec
            .iter()
            .map(|(tn, a, b, bit)| Dec {
                ctx: Ctx { t: T::from_name(tn).unwrap_or(T::Direct), sub: *a, node: *b },
                b: *bit != 0,
            })
            .collect();
        let same = mine.len() == theirs.len()
            && mine.iter().zip(theirs.iter()).all(|(x, y)| x.b == y.b && (x.ctx.t == T::Direct && y.ctx.t == T::Direct || x.ctx == y.ctx));
        if !same || cs.out != t.out {
            rep.tool_error(format!("transcription of LzmaCoding.tla disagrees with the TLC export on {:?}", t.prog));
            continue;
        }
        rep.count("transcription_crosschecked");
        let payload = match encode_tlc_decs(&t.dec) {
            Some(p) => p,
            None => {
                rep.tool_error("unknown table name in TLC export".into());
                continue;
            }
        };
        // three APIs on the same bytes
        let dict = [0u32, 4096, 65536, 1 << 20][n % 4];
        let mut full = lzma_header(props, dict, Some(u64::MAX));
        full.extend_from_slice(&payload);
        let apis: [&str; 3] = ["oneshot", "raw", "stream"];
        let api_name = apis[(n + seed as usize) % 3];
        let mut c = LzmaCase {
            api: api_name.into(),
            props,
            dict: if api_name == "raw" { 4096 } else { dict },
            prog: t.prog.clone(),
            size_field: None,
            opt: Opt::ReadFromHeader,
            raw_size: None,
            memlimit: None,
            trailing: String::new(),
            truncate: None,
            cuts: vec![],
            data_hex: Some(hex(if api_name == "raw" { &payload } else { &full })),
            spec: Some(SpecPred { res: "ok".into(), why: "eos".into(), out: t.out.clone() }),
            origin: "tlc:MC_LzmaCoding".into(),
        };
        if api_name == "stream" {
            let total = full.len();
            let k = rng.gen_range(0..4);
            c.cuts = (0..k).map(|_| rng.gen_range(0..=total)).collect();
            c.cuts.sort();
        }
        let ok = check_case(&c, prop, rep);
        if ok && rep.samples.len() < 5 && n % 97 == 1 {
            rep.sample(json!({"origin": c.origin, "props": props, "prog": t.prog, "out_len": t.out.len(), "api": api_name}));
        }
    }
}

// ---------------------------------------------------------------- long walks of the transcribed spec

pub struct WalkCfg {
    pub nsyms: usize,
    pub props: Props,
    /// distances are drawn up to this bound (and up to what was produced)
    pub max_dist: u64,
    pub lit_alphabet: u32,
}

/// Random valid program: all length classes, distances across slots, heavy use of reps.
pub fn random_walk(rng: &mut StdRng, w: &WalkCfg) -> Vec<Sym> {
    let mut cs = CS::default();
    let mut prog = Vec::with_capacity(w.nsyms);
    while prog.len() < w.nsyms {
        let produced = cs.out.len() as u64;
        let r = rng.gen_range(0..100);
        let len_pick = |rng: &mut StdRng| -> u32 {
            match rng.gen_range(0..10) {
                0..=3 => rng.gen_range(2..=9),
                4..=6 => rng.gen_range(10..=17),
                7..=8 => rng.gen_range(18..=273),
                _ => [2, 9, 10, 17, 18, 273][rng.gen_range(0..6)],
            }
        };
        let s = if produced == 0 || r < 30 {
            let b = if w.lit_alphabet >= 256 { rng.gen::<u8>() } else { (rng.gen_range(0..w.lit_alphabet) * 37 % 256) as u8 };
            Sym::Lit { b }
        } else if r < 60 {
            // distance: pick a slot-ish magnitude then clamp
            let maxd = produced.min(w.max_dist);
            let bits = 64 - maxd.leading_zeros();
            let k = rng.gen_range(0..=bits);
            let hi = if k >= 63 { u64::MAX } else { (1u64 << k).max(1) };
            let d = rng.gen_range(1..=hi.min(maxd));
            Sym::Match { d, n: len_pick(rng) }
        } else if r < 70 {
            Sym::Short
        } else {
            Sym::Rep { r: rng.gen_range(0..4), n: len_pick(rng) }
        };
        if cs.valid(&s) {
            // also keep rep distances inside max_dist so that a small dictionary stays legal
            let okd = match s {
                Sym::Short => cs.rep[0] + 1 <= w.max_dist,
                Sym::Rep { r, .. } => cs.rep[r as usize] + 1 <= w.max_dist,
                Sym::Lit { .. } => cs.st < 7 || cs.rep[0] + 1 <= w.max_dist,
                _ => true,
            };
            if okd {
                cs.apply(&s);
                prog.push(s);
            }
        }
    }
    prog
}

/// C01 long walks: aged adaptive state, copies straddling the wrap of small dictionaries,
/// both termination styles, dictionary-size independence.
pub fn walks(prop: &str, seed: u64, count: usize, nsyms: usize, rep: &mut Report) {
    let mut rng = StdRng::seed_from_u64(seed ^ 0xA11CE);
    for i in 0..count {
        let pr = if i % 3 == 0 {
            PROP_ROT[i % PROP_ROT.len()]
        } else {
            (rng.gen_range(0..=8), rng.gen_range(0..=4), rng.gen_range(0..=4))
        };
        let props = Props { lc: pr.0, lp: pr.1, pb: pr.2 };
        let small = i % 2 == 0;
        let max_dist = if small && i % 14 == 12 { 4096 } else if small { [1u64, 2, 3, 5, 8, 64, 300][i / 2 % 7] } else { 1 << 22 };
        let w = WalkCfg { nsyms, props, max_dist, lit_alphabet: if i % 4 == 1 { 3 } else { 256 } };
        let mut prog = random_walk(&mut rng, &w);
        let with_marker = i % 2 == 1 || i % 5 == 0;
        let enc_noeos = coding::encode_program(&prog, props);
        let out_len = enc_noeos.out.len() as u64;
        if with_marker {
            // the marker is defined by its distance alone: every third one carries a length other than 2
            prog.push(if i % 3 == 1 { Sym::Eosn { n: [3u32, 10, 273, 18][i % 4] } } else { Sym::Eos });
        }
        // raw decoder with the *exact* dictionary (copies wrap), one-shot with header dict,
        // and a larger declared dictionary: all must give the same bytes
        let variants: Vec<(&str, u32)> = if small && i % 14 == 12 {
            // distances up to exactly 4096 under a header dictionary field below 4096 (behaves as 4096)
            vec![("oneshot", 1), ("oneshot", 4095), ("stream", 0), ("raw", 4096)]
        } else if small {
            vec![("raw", max_dist as u32), ("raw", (max_dist as u32) * 2 + 1), ("oneshot", 0), ("stream", 4096)]
        } else {
            vec![("oneshot", 1 << 22), ("raw", 1 << 22), ("oneshot", 0xFFFF_FFFF), ("stream", 1 << 23)]
        };
        for (api_name, dict) in variants {
            // header dict below 4096 behaves as 4096: only legal if max_dist <= 4096 (true for small)
            if !small && dict < (1 << 22) {
                continue;
            }
            let sized = !with_marker;
            let mut c = LzmaCase {
                api: api_name.into(),
                props,
                dict,
                prog: prog.clone(),
                size_field: if sized { Some(out_len) } else { None },
                opt: Opt::ReadFromHeader,
                raw_size: if sized { Some(out_len) } else { None },
                memlimit: None,
                trailing: String::new(),
                truncate: None,
                cuts: vec![],
                data_hex: None,
                spec: None,
                origin: format!("walk:{}:{}", seed, i),
            };
            if api_name == "stream" {
                let total = c.bytes().len();
                let k = rng.gen_range(1..6);
                c.cuts = (0..k).map(|_| rng.gen_range(0..=total)).collect();
                c.cuts.sort();
            }
            let ok = check_case(&c, prop, rep);
            // the sink may accept only part of every write (pipe, socket): the delivered bytes must still be exact
            if ok && api_name != "stream" && i % 3 == 0 {
                let data = c.bytes();
                let e = c.expect(&data);
                let mut sink = crate::io::FaultSink { short: [1usize, 7, 1000][i / 3 % 3], ..Default::default() };
                let mut rd = &data[..];
                let r = crate::io::catch(|| {
                    if api_name == "raw" {
                        use lzma_rs::decompress::raw::{LzmaDecoder, LzmaParams, LzmaProperties};
                        let mut d = LzmaDecoder::new(LzmaParams::new(LzmaProperties { lc: props.lc, lp: props.lp, pb: props.pb }, c.dict, c.raw_size), None).map_err(|e| format!("{:?}", e))?;
                        d.decompress(&mut rd, &mut sink).map_err(|e| format!("{:?}", e))
                    } else {
                        lzma_rs::lzma_decompress_with_options(&mut rd, &mut sink, &api::options(c.opt, None, false)).map_err(|e| format!("{:?}", e))
                    }
                });
                let good = matches!(r, crate::io::Caught::Done(Ok(()))) && sink.data == e.out;
                rep.eval(hash_of(&(hex(&data[..data.len().min(64)]), api_name, "short-sink", i)), true);
                // (a raw constructor may refuse a dictionary below 4096 - see check_case; "the bytes delivered to the
                // output sink are exactly the bytes the format defines" is C01's text for whatever io::Write the caller has)
                let refused = api_name == "raw" && c.dict < 4096 && matches!(&r, crate::io::Caught::Done(Err(_))) && {
                    use lzma_rs::decompress::raw::{LzmaDecoder, LzmaParams, LzmaProperties};
                    LzmaDecoder::new(LzmaParams::new(LzmaProperties { lc: props.lc, lp: props.lp, pb: props.pb }, c.dict, c.raw_size), None).is_err()
                };
                if e.v == Exp::Ok && !good && !refused && ["C01", "C12"].contains(&prop) {
                    let mut cj = serde_json::to_value(&c).unwrap();
                    cj["kind"] = json!("lzma");
                    cj["sink"] = json!("accepts at most a few bytes per write call");
                    rep.violation(prop, format!("with a sink that accepts only part of each write the delivered bytes are not the stream's output ({} of {} bytes)", sink.data.len(), e.out.len()), cj);
                }
            }
            if ok && i < 2 && api_name == "raw" {
                rep.sample(json!({"origin": c.origin, "props": props, "dict": dict, "nsyms": prog.len(), "out_len": out_len, "first_syms": &prog[..prog.len().min(6)]}));
            }
        }
    }
}

/// Replay of MC_LzmaHeader: every exported (props byte, dictionary class, size-field class, option,
/// supplied-size class, truncation) is instantiated with a real payload coded under the lc/lp/pb TLC derived
/// from the props byte; TLC's reading of the header is cross-checked with the byte-level oracle, and the
/// one-shot and streaming decoders are compared with the oracle (verdict, bytes, input consumed).
pub fn replay_header_export(path: &str, prop: &str, seed: u64, rep: &mut Report) {
    let lines = tlc_json_lines(path, "HDR");
    rep.add("tlc_headers_in_export", lines.len() as u64);
    let prog = vec![Sym::Lit { b: b'a' }, Sym::Lit { b: b'b' }, Sym::Match { d: 1, n: 4 }, Sym::Lit { b: b'c' }];
    let t: u64 = 7;
    let inst = |class: &str| -> Option<u64> {
        match class {
            "none" => None,
            "zero" => Some(0),
            "true" => Some(t),
            "truePlus1" => Some(t + 1),
            "top" => Some(1 << 63),
            "allButOne" => Some(u64::MAX - 1),
            _ => Some(1 << 40),
        }
    };
    let mut n = 0usize;
    for l in &lines {
        let v: Value = match serde_json::from_str(l) {
            Ok(v) => v,
            Err(e) => {
                rep.tool_error(format!("bad HDR line: {}", e));
                continue;
            }
        };
        n += 1;
        let c = &v["c"];
        let r = &v["r"];
        let props_b = c["props"].as_u64().unwrap() as u8;
        let dict = c["dict"].as_u64().unwrap() as u32;
        let field = inst(c["field"].as_str().unwrap());
        let provided = inst(c["provided"].as_str().unwrap());
        let avail = c["avail"].as_u64().unwrap() as usize;
        let opt = match c["opt"].as_str().unwrap() {
            "ReadFromHeader" => Opt::ReadFromHeader,
            "ReadHeaderButUseProvided" => Opt::ReadHeaderButUseProvided { n: provided },
            _ => Opt::UseProvided { n: provided },
        };
        let need = opt.header_len();
        // header bytes
        let mut hdr = vec![props_b];
        hdr.extend_from_slice(&dict.to_le_bytes());
        if need == 13 {
            hdr.extend_from_slice(&field.unwrap_or(u64::MAX).to_le_bytes());
        }
        let mut data = hdr.clone();
        let rv = r["v"].as_str().unwrap_or("");
        if avail < need {
            data.truncate(avail);
        } else if let Some(p) = Props::from_byte(props_b) {
            let size_eff = crate::oracle::size_in_effect(opt, field);
            let mut pr = prog.clone();
            if size_eff.is_none() {
                pr.push(Sym::Eos);
            }
            data.extend_from_slice(&coding::encode_program(&pr, p).payload);
            // TLC's reading of the header vs the oracle's
            if rv == "ok" {
                let same = r["lc"].as_u64() == Some(p.lc as u64) && r["lp"].as_u64() == Some(p.lp as u64) && r["pb"].as_u64() == Some(p.pb as u64)
                    && r["dict"].as_u64() == Some((dict as u64).max(4096))
                    && inst(r["size"].as_str().unwrap_or("none")) == size_eff
                    && r["consumed"].as_u64() == Some(need as u64);
                if !same {
                    rep.tool_error(format!("LzmaHeader.tla and the byte-level oracle read the header differently: {}", l));
                    continue;
                }
            }
        } else {
            data.extend_from_slice(&[0, 0, 0, 0, 0, 0]);
        }
        let e = expect_lzma(&data, opt, None);
        let tlc_err = rv != "ok";
        if tlc_err && e.v != Exp::Err {
            rep.tool_error(format!("LzmaHeader.tla says {} but the oracle accepts: {}", rv, l));
            continue;
        }
        for api_name in ["oneshot", "stream"] {
            let mut cuts = vec![];
            if api_name == "stream" {
                cuts = vec![[1usize, 4, 5, 12, 13][(n + seed as usize) % 5].min(data.len())];
            }
            let case = LzmaCase {
                api: api_name.into(),
                props: Props::from_byte(props_b).unwrap_or(Props { lc: 0, lp: 0, pb: 0 }),
                dict,
                prog: vec![],
                size_field: field,
                opt,
                raw_size: None,
                memlimit: None,
                trailing: String::new(),
                truncate: None,
                cuts,
                data_hex: Some(hex(&data)),
                spec: None,
                origin: "tlc:MC_LzmaHeader".into(),
            };
            // zero input to Stream is the documented exception of C05, not a header case
            if api_name == "stream" && data.is_empty() {
                continue;
            }
            let ok = check_case_hdr(&case, prop, rep);
            if ok && rep.samples.len() < 4 && n % 4001 == 1 {
                rep.sample(json!({"origin": case.origin, "header": c, "tlc_reading": r, "api": api_name}));
            }
        }
    }
}

/// One entry point on one input, judged against the byte-level oracle (and, for the Stream entry points, against the
/// one-shot decoder).  Shared by the replay of MC_EntryPoints and by `--replay` of its violations.
pub fn judge_entry_point(ep: &str, data: &[u8], opt: Opt, props: Props, built_with: Option<u64>, rule: &str, prop: &str, rep: &mut Report) -> Result<Vec<String>, String> {
    let e = expect_lzma(data, opt, None);
    let o = api::options(opt, None, false);
    let one = api::lzma_bytes_consumed(data, &o);
    let hl = opt.header_len();
    let field = if hl == 13 && data.len() >= 13 {
        let mut b = [0u8; 8];
        b.copy_from_slice(&data[5..13]);
        let v = u64::from_le_bytes(b);
        if v == u64::MAX { None } else { Some(v) }
    } else {
        None
    };
    let size_eff = crate::oracle::size_in_effect(opt, field);
    let (out, consumed): (api::Outcome, Option<usize>) = match ep {
        "resized" => {
            if data.len() < hl {
                return Ok(vec![]);
            }
            let dict_hdr = u32::from_le_bytes([data[1], data[2], data[3], data[4]]).max(4096);
            let (o, c) = api::raw_lzma_resized(&data[hl..], props.lc, props.lp, props.pb, dict_hdr, built_with, size_eff);
            (o, Some(c + hl))
        }
        "plain" => {
            let (o, c) = api::lzma_plain_consumed(data);
            (o, Some(c))
        }
        "oneshot" => (api::Outcome { verdict: one.0.verdict, out: one.0.out.clone(), msg: one.0.msg.clone() }, Some(one.1)),
        "blocks" => {
            let (o, c) = api::lzma_blocks_consumed(data, &o);
            (o, Some(c))
        }
        "stream1" | "streamN" => {
            let cuts: Vec<usize> = if ep == "stream1" { vec![] } else { (1..data.len()).collect() };
            let r = api::stream_run(data, &cuts, &o);
            (api::Outcome { verdict: r.verdict, out: r.out, msg: r.msg }, None)
        }
        other => return Err(format!("unknown entry point {}", other)),
    };
    if prop == "C05" {
        // C05 states one thing: the streaming decoder sides with the one-shot decoder on the same bytes and options
        // (what BOTH do with the input is the text of C01 / C08)
        if !ep.starts_with("stream") || one.0.verdict == Verdict::Panic {
            return Ok(vec![]);
        }
        let mut vs = vec![];
        if out.verdict == Verdict::Panic {
            vs.push(format!("{} panics ({}), the one-shot decoder gives {:?}", ep, out.msg, one.0.verdict));
        } else if (out.verdict == Verdict::Ok) != (one.0.verdict == Verdict::Ok) || (out.verdict == Verdict::Ok && out.out != one.0.out) {
            vs.push(format!("{} gives {:?} ({} bytes; {}), the one-shot decoder {:?} ({} bytes; {}) (rule: {})", ep, out.verdict, out.out.len(), out.msg, one.0.verdict, one.0.out.len(), one.0.msg, rule));
        }
        return Ok(vs);
    }
    let mut tagged: Vec<(String, String)> = vec![];
    match out.verdict {
        Verdict::Panic => tagged.push(("panic".into(), format!("panic: {}", out.msg))),
        Verdict::Ok => match e.v {
            Exp::Err => tagged.push((format!("reject:{}", e.class), format!("accepted ({} bytes) although the rules say error ({})", out.out.len(), e.class))),
            _ => {
                if out.out.len() != e.out.len() && size_eff == Some(e.out.len() as u64) {
                    // a size is in effect: "success implies exactly that many bytes were produced"
                    tagged.push(("output-length".into(), format!("output of {} bytes with a size of {} bytes in effect", out.out.len(), e.out.len())));
                } else if out.out != e.out {
                    tagged.push(("exact-output".into(), format!("output of {} bytes, the stream defines {}", out.out.len(), e.out.len())));
                } else if let (Some(c1), Some(ec)) = (consumed, e.consumed) {
                    if e.v == Exp::Ok && c1 != ec {
                        tagged.push(("consumed".into(), format!("consumed {} input bytes, the payload ends at {} (rule: {})", c1, ec, rule)));
                    }
                }
            }
        },
        Verdict::Err => {
            if e.v == Exp::Ok {
                tagged.push(("accept-valid".into(), format!("rejected although the rules say success: {}", out.msg)));
            }
        }
    }
    // C05: whatever the rules leave open, the streaming decoder must side with the one-shot decoder
    if tagged.is_empty() && ep.starts_with("stream") && one.0.verdict != Verdict::Panic && out.verdict != Verdict::Panic {
        if (out.verdict == Verdict::Ok) != (one.0.verdict == Verdict::Ok) || (out.verdict == Verdict::Ok && out.out != one.0.out) {
            tagged.push(("stream-vs-oneshot".into(), format!("{} gives {:?} ({} bytes), the one-shot decoder {:?} ({} bytes)", ep, out.verdict, out.out.len(), one.0.verdict, one.0.out.len())));
        }
    }
    let mut vs: Vec<String> = vec![];
    for (clause, d) in tagged {
        // the "resized" object relies on reset(Some(size)) doing what C14 says: its deviations are C14's
        if owns_clause(prop, &clause) && (ep != "resized" || prop == "C14") {
            vs.push(d);
        } else {
            rep.drift(format!("(clause '{}' of another property, seen while checking {}) {}: {}", clause, prop, ep, d), json!({"entry_point": ep}));
        }
    }
    Ok(vs)
}

/// `--replay` of a violation found by replay_entry_points.
pub fn replay_ep(v: &Value, prop: &str, rep: &mut Report) {
    let c: LzmaCase = serde_json::from_value(v.clone()).expect("lzma case");
    let data = c.bytes();
    let ep = v["entry_point"].as_str().unwrap_or("oneshot");
    rep.eval(1, true);
    match judge_entry_point(ep, &data, c.opt, c.props, v["built_with"].as_u64(), "", prop, rep) {
        Ok(vs) if !vs.is_empty() => rep.violation(prop, format!("replayed {}: {}", ep, vs.join("; ")), v.clone()),
        Ok(_) => {}
        Err(m) => rep.tool_error(m),
    }
}

/// Replay of MC_EntryPoints: every case of the end / size rules (option x header field class x supplied size class
/// x marker x cut x trailing bytes) is instantiated with three payloads whose last symbol is a copy, and decoded
/// through all entry points the case names (plain, oneshot, building blocks, Stream in one write, Stream bytewise).
/// TLC's verdict class is cross-checked with the byte-level oracle; "any" cases are decided by the oracle alone.
pub fn replay_entry_points(path: &str, prop: &str, seed: u64, rounds: usize, rep: &mut Report) {
    let lines = tlc_json_lines(path, "EP");
    rep.add("tlc_entry_point_cases", lines.len() as u64);
    let mut rng = StdRng::seed_from_u64(seed ^ 0xe9);
    // payloads: (props, program ending in a copy of length >= 2)
    let mut payloads: Vec<(Props, Vec<Sym>)> = vec![(Props { lc: 3, lp: 0, pb: 2 }, vec![Sym::Lit { b: b'a' }, Sym::Lit { b: b'b' }, Sym::Match { d: 2, n: 5 }])];
    let mut shapes: Vec<(Props, usize)> = vec![(Props { lc: 0, lp: 2, pb: 0 }, 40usize), (Props { lc: 1, lp: 1, pb: 4 }, 300)];
    for r in 1..rounds {
        let lc = rng.gen_range(0..=8);
        shapes.push((Props { lc, lp: rng.gen_range(0..=4), pb: rng.gen_range(0..=4) }, [1usize, 5, 60, 700, 3000][r % 5]));
    }
    for (props, n) in shapes {
        let mut prog = random_walk(&mut rng, &WalkCfg { nsyms: n, props, max_dist: 4096, lit_alphabet: 20 });
        prog.push(Sym::Lit { b: 0x41 });
        prog.push(Sym::Match { d: 1, n: 3 });
        payloads.push((props, prog));
    }
    let mut n = 0usize;
    for l in &lines {
        let v: Value = match serde_json::from_str(l) {
            Ok(v) => v,
            Err(e) => {
                rep.tool_error(format!("bad EP line: {}", e));
                continue;
            }
        };
        let c = &v["c"];
        let tv = v["verdict"].as_str().unwrap_or("");
        let marker = c["marker"].as_bool().unwrap();
        let cut = c["cut"].as_bool().unwrap();
        let trail = c["trail"].as_bool().unwrap();
        for (pi, (props, prog)) in payloads.iter().enumerate() {
            n += 1;
            let t = coding::encode_program(prog, *props).out.len() as u64;
            let inst = |class: &str| -> Option<u64> {
                match class {
                    "none" => None,
                    "zero" => Some(0),
                    "tm1" => Some(t - 1),
                    "true" => Some(t),
                    "truePlus1" => Some(t + 1),
                    "top" => Some(1 << 63),
                    "allButOne" => Some(u64::MAX - 1),
                    _ => Some(1 << 40),
                }
            };
            let field = inst(c["field"].as_str().unwrap());
            let provided = inst(c["provided"].as_str().unwrap());
            let opt = match c["opt"].as_str().unwrap() {
                "ReadFromHeader" => Opt::ReadFromHeader,
                "ReadHeaderButUseProvided" => Opt::ReadHeaderButUseProvided { n: provided },
                _ => Opt::UseProvided { n: provided },
            };
            let mut pr = prog.clone();
            if marker {
                pr.push(if n % 4 == 3 { Sym::Eosn { n: [3u32, 9, 100, 273][(n / 4) % 4] } } else { Sym::Eos });
            }
            let mut data = lzma_header(*props, [4096u32, 1 << 20, 0][pi % 3], if opt.header_len() == 13 { Some(field.unwrap_or(u64::MAX)) } else { None });
            data.extend_from_slice(&coding::encode_program(&pr, *props).payload);
            if cut {
                data.pop();
            }
            if trail {
                let k = [1usize, 7, 30][(n / 3) % 3];
                for j in 0..k {
                    data.push(if k == 1 { 0 } else { rng.gen::<u8>() | (j == 0) as u8 });
                }
            }
            let e = expect_lzma(&data, opt, None);
            let size_eff = inst(v["size"].as_str().unwrap_or("none"));
            if size_eff != crate::oracle::size_in_effect(opt, field) {
                rep.tool_error(format!("EntryPoints.tla and the oracle disagree on the size in effect: {}", l));
                continue;
            }
            let agrees = match tv {
                "okT" => (e.v == Exp::Ok || e.class == "size-reached-coder-not-at-rest") && e.out.len() as u64 == t,
                "ok0" => (e.v == Exp::Ok || e.class == "size-reached-coder-not-at-rest") && e.out.is_empty(),
                "err" => e.v == Exp::Err || e.class == "truncated-behind-last-bit",
                _ => true,
            };
            if !agrees {
                rep.tool_error(format!("EntryPoints.tla says {} but the byte-level oracle says {:?}/{} ({} bytes) for payload #{}: {}", tv, e.v, e.class, e.out.len(), pi, l));
                continue;
            }
            if tv == "any" {
                rep.count("entry_points_rule_leaves_open");
            }
            
            
            let mut eps: Vec<String> = v["eps"].as_array().unwrap().iter().map(|x| x.as_str().unwrap().to_string()).collect();
            // not an entry point of the model but the same rules: a raw decoder built with another size and told the
            // size in effect through reset(Some(size))
            eps.push("resized".into());
            for ep in &eps {
                let ep = ep.as_str();
                let built_with = if n % 2 == 0 { Some(3u64) } else { None };
                rep.eval(hash_of(&(hex(&data), ep, format!("{:?}", opt))), true);
                let vs = match judge_entry_point(ep, &data, opt, *props, built_with, &v["consumed"].to_string(), prop, rep) {
                    Ok(vs) => vs,
                    Err(m) => {
                        rep.tool_error(m);
                        continue;
                    }
                };
                if !vs.is_empty() {
                    let case = LzmaCase {
                        api: if ep.starts_with("stream") { "stream".into() } else { "oneshot".into() },
                        props: *props,
                        dict: 4096,
                        prog: vec![],
                        size_field: field,
                        opt,
                        raw_size: None,
                        memlimit: None,
                        trailing: String::new(),
                        truncate: None,
                        cuts: if ep == "streamN" { (1..data.len()).collect() } else { vec![] },
                        data_hex: Some(hex(&data)),
                        spec: None,
                        origin: format!("tlc:MC_EntryPoints:{}:payload{}", ep, pi),
                    };
                    let mut cj = serde_json::to_value(&case).unwrap();
                    cj["kind"] = json!("ep");
                    cj["built_with"] = json!(built_with);
                    cj["entry_point"] = json!(ep);
                    cj["tlc_case"] = v.clone();
                    rep.violation(prop, format!("{} [{}]: {}", ep, l.chars().take(160).collect::<String>(), vs.join("; ")), cj);
                } else if rep.samples.len() < 6 && n % 211 == 1 {
                    rep.sample(json!({"origin": "tlc:MC_EntryPoints", "case": c, "verdict_class": tv, "entry_point": ep, "payload": pi}));
                }
            }
        }
    }
}

/// C08: option x header-size-field x end-marker x caller-supplied-size matrix on the one-shot and
/// the streaming API (the raw decoder is covered by the TLC export).
pub fn options_matrix(prop: &str, seed: u64, nprogs: usize, rep: &mut Report) {
    let mut rng = StdRng::seed_from_u64(seed ^ 0xc08);
    for pi in 0..nprogs {
        let props = Props { lc: [3, 0, 8, 2][pi % 4], lp: [0, 4, 0, 1][pi % 4], pb: [2, 0, 4, 3][pi % 4] };
        let nsyms = [1usize, 3, 12, 80][pi % 4];
        let mut prog = random_walk(&mut rng, &WalkCfg { nsyms, props, max_dist: 4096, lit_alphabet: 200 });
        if pi % 3 == 0 {
            // make the last symbol a match, so that "true - 1" is overshot by a copy
            prog.push(Sym::Match { d: 1, n: 7 });
        }
        let t = coding::encode_program(&prog, props).out.len() as u64;
        for marker in [false, true] {
            let mut p2 = prog.clone();
            if marker {
                p2.push(if pi % 3 == 2 { Sym::Eosn { n: 2 + (pi as u32 * 37) % 272 } } else { Sym::Eos });
            }
            let fields: Vec<Option<u64>> = vec![None, Some(t), Some(t + 1), Some(t.saturating_sub(1)), Some(0), Some(1 << 40), Some(1 << 63), Some(u64::MAX - 1), Some((1 << 32) + t)];
            let ns: Vec<Option<u64>> = vec![None, Some(t), Some(t + 1), Some(t.saturating_sub(1)), Some(0)];
            for (fi, field) in fields.iter().enumerate() {
                let mut opts: Vec<Opt> = vec![Opt::ReadFromHeader];
                for n in &ns {
                    opts.push(Opt::ReadHeaderButUseProvided { n: *n });
                }
                if fi == 0 {
                    for n in &ns {
                        opts.push(Opt::UseProvided { n: *n });
                    }
                }
                for opt in opts {
                    for api_name in ["oneshot", "stream"] {
                        let mut c = LzmaCase {
                            api: api_name.into(),
                            props,
                            dict: [0u32, 4096, 1 << 20][pi % 3],
                            prog: p2.clone(),
                            size_field: *field,
                            opt,
                            raw_size: None,
                            memlimit: None,
                            trailing: if pi % 5 == 4 { "00".into() } else { String::new() },
                            truncate: None,
                            cuts: vec![],
                            data_hex: None,
                            spec: None,
                            origin: format!("options-matrix:{}", pi),
                        };
                        if api_name == "stream" {
                            let total = c.bytes().len();
                            c.cuts = (0..rng.gen_range(0..4)).map(|_| rng.gen_range(0..=total)).collect();
                            c.cuts.sort();
                        }
                        let ok = check_case_hdr(&c, prop, rep);
                        // "input that runs out first": the same case cut right behind the header, inside the preamble,
                        // right behind it and one byte before the end
                        if fi <= 1 && crate::oracle::size_in_effect(opt, *field).map_or(false, |n| n > 0) {
                            let plen = c.payload().len();
                            for keep in [0usize, 1, 4, 5, plen.saturating_sub(1)] {
                                if keep < plen {
                                    let mut ct = c.clone();
                                    ct.truncate = Some(keep);
                                    ct.trailing = String::new();
                                    ct.cuts = vec![];
                                    ct.origin = format!("options-matrix:{}:truncated{}", pi, keep);
                                    check_case(&ct, prop, rep);
                                }
                            }
                        }
                        if ok && rep.samples.len() < 8 && fi == 2 && api_name == "oneshot" && marker {
                            rep.sample(json!({"origin": c.origin, "true_len": t, "header_size_field": field, "opt": c.opt, "marker": marker, "api": api_name}));
                        }
                    }
                }
            }
        }
    }
}

/// check_case plus the "header bytes consumed" clause of C08 for the one-shot API: on success
/// the reader must have moved past exactly header(13/13/5) + payload bytes.
pub fn check_case_hdr(c: &LzmaCase, prop: &str, rep: &mut Report) -> bool {
    let ok = check_case(c, prop, rep);
    if ok && c.api == "oneshot" {
        // C08: "the three header options consume 13, 13 and 5 header bytes respectively" - observed where the header is
        // read and nothing else: LzmaParams::read_header on a slice (the position after the PAYLOAD is C11's clause)
        let data = c.bytes();
        let hl = c.opt.header_len();
        if data.len() >= hl && Props::from_byte(data[0]).is_some() {
            use lzma_rs::decompress::raw::LzmaParams;
            let o = api::options(c.opt, None, false);
            let mut rd = &data[..];
            let r = crate::io::catch(|| LzmaParams::read_header(&mut rd, &o).is_ok());
            let took = data.len() - rd.len();
            match r {
                crate::io::Caught::Done(true) if took != hl => {
                    let mut cj = serde_json::to_value(c).unwrap();
                    cj["kind"] = json!("lzma");
                    if owns_clause(prop, "header-bytes") {
                        rep.violation(prop, format!("reading the header under {:?} consumed {} bytes, the option defines {}", c.opt, took, hl), cj);
                        return false;
                    }
                }
                _ => {}
            }
            // the same through readers whose buffered window ends inside the header (every BufReader capacity up to
            // the header length + 1, and a source that exposes one byte per refill)
            if owns_clause(prop, "header-bytes") {
                for cap in 1..=hl + 1 {
                    let mut src = crate::d_reader::LogSrc::new(&data, if cap == hl + 1 { vec![1] } else { vec![] }, false);
                    let took = if cap == hl + 1 {
                        let r = crate::io::catch(|| LzmaParams::read_header(&mut src, &o).is_ok());
                        if !matches!(r, crate::io::Caught::Done(true)) {
                            continue;
                        }
                        src.pos
                    } else {
                        let mut br = std::io::BufReader::with_capacity(cap, &mut src);
                        let r = crate::io::catch(|| LzmaParams::read_header(&mut br, &o).is_ok());
                        if !matches!(r, crate::io::Caught::Done(true)) {
                            continue;
                        }
                        let buffered = br.buffer().len();
                        drop(br);
                        src.pos - buffered
                    };
                    if took != hl {
                        let mut cj = serde_json::to_value(c).unwrap();
                        cj["kind"] = json!("lzma");
                        rep.violation(prop, format!("reading the header under {:?} through a reader that exposes {} consumed {} bytes, the option defines {}", c.opt, if cap == hl + 1 { "one byte per refill".to_string() } else { format!("{} bytes per refill", cap) }, took, hl), cj);
                        return false;
                    }
                }
            }
        }
    }
    ok
}

/// C10: memory limits around the window actually needed, one-shot and streaming, with the
/// peak heap observed by the counting allocator.
pub fn memlimit_matrix(prop: &str, seed: u64, nprogs: usize, rep: &mut Report) {
    use crate::io::alloc;
    let mut rng = StdRng::seed_from_u64(seed ^ 0xc10);
    for pi in 0..nprogs {
        let props = Props { lc: 3, lp: 0, pb: 2 };
        let dict: u32 = [4096u32, 8192, 1 << 16, 1 << 20][pi % 4];
        // outputs below and above the dictionary
        let target_out = [100usize, 3000, 5000, 20000, 70000][pi % 5];
        let mut prog: Vec<Sym> = vec![];
        let mut cs = CS::default();
        while cs.out.len() < target_out {
            // (the largest legal distance - the whole dictionary - followed by a literal, whose context byte and
            // matched byte are then read at the far end of a full window: the case "limit = dictionary" must allow)
            let far = cs.out.len() as u64 >= dict as u64 && rng.gen_bool(0.1);
            let after_far = matches!(prog.last(), Some(Sym::Match { d, .. }) if *d == dict as u64);
            let s = if cs.out.is_empty() || after_far || (!far && rng.gen_bool(0.3)) { Sym::Lit { b: rng.gen() } } else if far {
                Sym::Match { d: dict as u64, n: rng.gen_range(2..=20) }
            } else {
                let d = rng.gen_range(1..=(cs.out.len() as u64).min(dict as u64).min(4096));
                Sym::Match { d, n: rng.gen_range(2..=273) }
            };
            if cs.valid(&s) {
                cs.apply(&s);
                prog.push(s);
            }
        }
        prog.push(Sym::Eos);
        let produced = cs.out.len() as u64;
        let dict_eff = (dict as u64).max(4096);
        let need = produced.min(dict_eff);
        let mut limits: Vec<Option<u64>> = vec![Some(0), Some(need - 1), Some(need), Some(need + 1), Some(dict_eff - 1), Some(dict_eff), None, Some(u32::MAX as u64),
            // limits beyond 32 bits must behave as "no limit" (a narrowed limit would wrap to something small)
            Some(1 << 32), Some((1 << 32) + need - 1), Some(1 << 40), Some(u64::MAX)];
        limits.dedup();
        for m in limits {
            for api_name in ["oneshot", "stream", "raw", "oneshot-sized", "stream-sized"] {
                // "-sized": the header declares the uncompressed size (no marker): the limit is about the WINDOW
                // (min(dict, produced)), never about the declared total
                let sized = api_name.ends_with("-sized");
                let api_name = api_name.trim_end_matches("-sized");
                let mut prog_v = prog.clone();
                if sized {
                    prog_v.pop();
                }
                let mut c = LzmaCase {
                    api: api_name.into(),
                    props,
                    dict: if api_name == "raw" { dict_eff as u32 } else { dict },
                    prog: prog_v,
                    size_field: if sized { Some(produced) } else { None },
                    opt: Opt::ReadFromHeader,
                    raw_size: None,
                    memlimit: m,
                    trailing: String::new(),
                    truncate: None,
                    cuts: vec![],
                    data_hex: None,
                    spec: None,
                    origin: format!("memlimit-matrix:{}", pi),
                };
                if api_name == "stream" {
                    let total = c.bytes().len();
                    c.cuts = (0..rng.gen_range(0..5)).map(|_| rng.gen_range(0..=total)).collect();
                    c.cuts.sort();
                }
                let data = c.bytes();
                let base = alloc::begin();
                let ok = check_case(&c, prop, rep);
                let peak = alloc::peak_above(base);
                // history buffered by the decoder is at most m: allow Vec doubling (2m), the sink (2 * produced, ours),
                // probability tables and encoder-side scratch of this harness call (data + output copies)
                if let Some(mm) = m.filter(|x| *x < (1 << 31)) {
                    let allowance = 2 * mm as usize + 6 * produced as usize + 4 * data.len() + (1 << 20);
                    if ok && peak > allowance {
                        let mut cj = serde_json::to_value(&c).unwrap();
                        cj["kind"] = json!("lzma");
                        rep.violation(prop, format!("peak heap {} bytes with memory limit {} (output {} bytes): more than the limit allows for the history window", peak, mm, produced), cj);
                    }
                }
                if ok && rep.samples.len() < 8 && api_name == "stream" {
                    rep.sample(json!({"origin": c.origin, "dict": dict, "produced": produced, "need": need, "memlimit": m, "api": api_name, "peak_heap": peak}));
                }
            }
        }
    }
}

/// C09 "never fabricates bytes": a valid prefix, then ONE copy whose source does not exist, then a
/// continuation that is coded as if the missing bytes had been zeros (what a lenient window would
/// supply), terminated cleanly.  A decoder that fabricates accepts the whole stream; the format
/// says the copy is an error.  Circular window (raw decoder, small and 4096-byte dictionaries,
/// one-shot, Stream) and accumulating window (LZMA2, also right after a dictionary reset).
pub fn fab_probes(prop: &str, seed: u64, n: usize, rep: &mut Report) {
    use crate::build::{lzma2_chunk_header, L2State, Chunk};
    use crate::coding::{encode_decs, Probs};
    use crate::kernel::RangeEnc;
    let mut rng = StdRng::seed_from_u64(seed ^ 0xfab);
    // encode `prefix` (valid), then `bad` with fabricated zero bytes, then `tail`; returns (payload, outlen_if_fabricated, valid_prefix_out)
    fn enc_fab(cs: &mut CS, probs: &mut Probs, p: Props, prefix: &[Sym], bad: Sym, tail: &[Sym]) -> (Vec<u8>, usize, Vec<u8>) {
        let mut enc = RangeEnc::new();
        let start = cs.out.len();
        for s in prefix {
            let d = cs.decisions(s, p);
            encode_decs(&mut enc, probs, &d);
            cs.apply(s);
        }
        let valid_out = cs.out[start..].to_vec();
        let d = coding::invalid_decisions(cs, &bad, p);
        encode_decs(&mut enc, probs, &d);
        // fabricate: the copy "succeeds" reading zeros where nothing exists
        let (n, dist, nst, nrep): (u32, u64, usize, [u64; 4]) = match bad {
            Sym::Match { d, n } => (n, d, coding::match_next(cs.st), [d - 1, cs.rep[0], cs.rep[1], cs.rep[2]]),
            Sym::Short => (1, cs.rep[0] + 1, coding::short_next(cs.st), cs.rep),
            Sym::Rep { r, n } => {
                let rp = cs.rep;
                let nr = match r {
                    0 => rp,
                    1 => [rp[1], rp[0], rp[2], rp[3]],
                    2 => [rp[2], rp[0], rp[1], rp[3]],
                    _ => [rp[3], rp[0], rp[1], rp[2]],
                };
                (n, nr[0] + 1, coding::rep_next(cs.st), nr)
            }
            _ => (0, 1, cs.st, cs.rep),
        };
        for _ in 0..n {
            let l = cs.out.len() as u64;
            let b = if dist <= l { cs.out[(l - dist) as usize] } else { 0 };
            cs.out.push(b);
        }
        cs.st = nst;
        cs.rep = nrep;
        for s in tail {
            if cs.valid(s) {
                let d = cs.decisions(s, p);
                encode_decs(&mut enc, probs, &d);
                cs.apply(s);
            }
        }
        (enc.finish(), cs.out.len() - start, valid_out)
    }
    for i in 0..n {
        let p = Props { lc: [3, 0, 2][i % 3], lp: [0, 2, 0][i % 3], pb: [2, 0, 1][i % 3] };
        let npre = [0usize, 1, 3, 9, 40][i % 5];
        let dict: u32 = [1u32, 2, 3, 5, 8, 4096][i % 6];
        let prefix = if npre == 0 { vec![] } else { random_walk(&mut rng, &WalkCfg { nsyms: npre, props: p, max_dist: dict as u64, lit_alphabet: 9 }) };
        let produced = coding::encode_program(&prefix, p).out.len() as u64;
        let bads: Vec<Sym> = vec![
            Sym::Match { d: produced + 1, n: 2 + (i as u32 % 7) },
            Sym::Match { d: (dict as u64).max(produced) + 1, n: 3 },
            Sym::Match { d: 0xFFFF_FFF0, n: 2 },
            // the largest distance a stream can name that is NOT the end marker (the marker is 2^32), and its neighbour
            Sym::Match { d: 0xFFFF_FFFF, n: 2 + (i as u32 % 3) },
            Sym::Match { d: 0xFFFF_FFFE, n: 273 },
        ];
        // either the stream ends with the copy (a literal after it would read its match byte at the same bad
        // distance and is dropped by enc_fab), or a legal match replaces rep0 first and the stream goes on
        let tail = if i % 2 == 0 { vec![Sym::Lit { b: b'a' }, Sym::Lit { b: b'b' }] } else { vec![Sym::Match { d: 1, n: 2 }, Sym::Lit { b: b'a' }, Sym::Lit { b: b'b' }] };
        for bad in bads {
            // ---- circular window: raw decoder (exact dict), one-shot and stream (header dict) ----
            // "-open": the bad copy is the LAST symbol, the encoder flushes right behind it, no marker and no size - the
            // place where a decoder decides between "end of stream" and "one more symbol"
            for (api_full, marker) in [("raw", true), ("raw", false), ("oneshot", true), ("stream", false), ("stream-incomplete", false), ("stream-incomplete", true), ("raw-open", false), ("oneshot-open", false), ("stream-open", false)] {
                let open = api_full.ends_with("-open");
                let api_name = api_full.trim_end_matches("-open");
                let mut cs = CS::default();
                let mut probs = Probs::default();
                let mut t2 = if open { vec![] } else { tail.clone() };
                if api_name == "stream-incomplete" {
                    // C15 lets the streaming decoder lag up to 64 input bytes behind, and with allow_incomplete
                    // finish() accepts what exists: the bad copy must lie well before the end of the input for its
                    // rejection to be due - more than 64 bytes of continuation follow it
                    t2 = vec![Sym::Match { d: 1, n: 2 }];
                    for j in 0..130u32 {
                        t2.push(Sym::Lit { b: (j.wrapping_mul(97) ^ (j >> 2)) as u8 });
                    }
                }
                if marker {
                    t2.push(Sym::Eos);
                }
                // Eos is not "valid()"-filtered away: CS::valid(Eos) is true
                let (payload, total, valid_out) = enc_fab(&mut cs, &mut probs, p, &prefix, bad, &t2);
                let size = if marker || open { None } else { Some(total as u64) };
                let (data, o) = match api_name {
                    "raw" => {
                        let (o, _) = api::raw_lzma(&payload, p.lc, p.lp, p.pb, dict, size, None);
                        // the same probe on a decoder OBJECT that has just decoded a long valid stream and was reset:
                        // whatever the object kept (window, counters) must not make the copy acceptable
                        let reused = {
                            use lzma_rs::decompress::raw::{LzmaDecoder, LzmaParams, LzmaProperties};
                            let warm = coding::encode_program(&random_walk(&mut StdRng::seed_from_u64(7), &WalkCfg { nsyms: 300, props: p, max_dist: dict as u64, lit_alphabet: 7 }), p);
                            crate::io::catch(|| {
                                let mut d = LzmaDecoder::new(LzmaParams::new(LzmaProperties { lc: p.lc, lp: p.lp, pb: p.pb }, dict, Some(warm.out.len() as u64)), None).unwrap();
                                let mut sink = vec![];
                                let first_ok = d.decompress(&mut &warm.payload[..], &mut sink).is_ok();
                                d.reset(Some(size));
                                let mut out = vec![];
                                let r = d.decompress(&mut &payload[..], &mut out);
                                (first_ok, r.is_ok(), out.len())
                            })
                        };
                        if let crate::io::Caught::Done((true, true, n)) = reused {
                            rep.violation(prop, format!("raw dict {}: a copy beyond the produced output is accepted ({} bytes) by a decoder object that decoded another stream before and was reset", dict, n),
                                json!({"kind": "fab", "seed": seed, "n": n, "api": "raw-reused", "dict": dict, "props": p, "size": size, "data_hex": hex(&payload), "expect": "err"}));
                        }
                        (payload.clone(), o)
                    }
                    "oneshot" => {
                        let mut d = lzma_header(p, dict, Some(size.unwrap_or(u64::MAX)));
                        d.extend_from_slice(&payload);
                        let o = api::lzma_bytes(&d, &api::options(Opt::ReadFromHeader, None, false));
                        (d, o)
                    }
                    _ => {
                        let mut d = lzma_header(p, dict, Some(size.unwrap_or(u64::MAX)));
                        d.extend_from_slice(&payload);
                        // with allow_incomplete the final pass of finish() is lenient about missing input - not about
                        // a copy that is already known to be out of the window
                        let incomplete = api_name == "stream-incomplete";
                        let cuts = if incomplete { vec![d.len().saturating_sub(1 + i % 19)] } else { vec![d.len() / 2] };
                        let r = api::stream_run(&d, &cuts, &api::options(Opt::ReadFromHeader, None, incomplete));
                        (d, api::Outcome { verdict: r.verdict, out: r.out, msg: r.msg })
                    }
                };
                // header dictionaries below 4096 behave as 4096: a distance <= 4096 within produced is then legal
                let dict_eff = if api_name == "raw" { dict as u64 } else { (dict as u64).max(4096) };
                let really_invalid = match bad {
                    Sym::Match { d, .. } => d > produced || d > dict_eff,
                    _ => true,
                };
                if !really_invalid {
                    continue;
                }
                rep.eval(hash_of(&(hex(&data), api_name, dict)), true);
                rep.count("fab_probe");
                let bad_res = match o.verdict {
                    Verdict::Panic => Some(format!("panic: {}", o.msg)),
                    Verdict::Ok => Some(format!("a copy with distance beyond the window was accepted: {} bytes delivered, only {} exist before it", o.out.len(), valid_out.len())),
                    Verdict::Err => {
                        if !is_prefix(&o.out, &valid_out) { Some("bytes beyond the valid prefix were delivered before the error".to_string()) } else { None }
                    }
                };
                if let Some(b) = bad_res {
                    if api_name.starts_with("stream") && !b.starts_with("panic") {
                        // C09 is stated for the one-shot, LZMA2 / XZ and raw decoders; the incremental decoder is C05's
                        rep.drift(format!("(Stream, seen while checking {}) {} dict {}: {}", prop, api_name, dict, b), json!({"api": api_name}));
                    } else {
    rep.violation(prop, format!("{} dict {}: {}", api_name, dict, b), json!({"kind": "fab", "seed": seed, "n": n, "api": api_name, "dict": dict, "props": p, "size": size, "data_hex": hex(&data), "expect": "err"}));
                    }
                }
            }
        }
        // ---- accumulating window (LZMA2): the invalid copy is the FIRST symbol after a dictionary reset, or reaches before it ----
        let lp = Props { lc: p.lc.min(4), lp: p.lp.min(4 - p.lc.min(4)), pb: p.pb };
        for (ci, first_bad) in [Sym::Short, Sym::Match { d: 1, n: 4 }, Sym::Rep { r: (i % 4) as u8, n: 3 }, Sym::Match { d: 2, n: 2 }].iter().enumerate() {
            let mut st = L2State::default();
            let mut stream: Vec<u8> = vec![];
            if i % 2 == 0 {
                let ch = st.push(&Chunk::Raw { reset: true, data: b"hello".to_vec() });
                stream.extend_from_slice(&ch.bytes);
            }
            // class 3: dictionary reset, history empty again
            st.cs.out.clear();
            st.cs.st = 0;
            st.cs.rep = [0; 4];
            st.probs.reset();
            let (payload, total, _) = enc_fab(&mut st.cs, &mut st.probs, lp, &[], *first_bad, &tail);
            let mut b = lzma2_chunk_header(3, total.max(1), payload.len(), Some(lp));
            b.extend_from_slice(&payload);
            stream.extend_from_slice(&b);
            stream.push(0);
            for api_name in ["lzma2", "xz"] {
                let o = if api_name == "lzma2" { api::lzma2_bytes(&stream).0 } else {
                    let f = crate::build::XzFile { check: 0, blocks: vec![crate::build::XzBlock { payload: stream.clone(), content: vec![], ..Default::default() }], ..Default::default() };
                    api::xz_bytes(&f.serialize().bytes)
                };
                rep.eval(hash_of(&(hex(&stream), api_name, ci)), true);
                rep.count("fab_probe_lzma2");
                if o.verdict != Verdict::Err {
                    rep.violation(prop, format!("{}: a copy from an empty dictionary (first symbol after a dictionary reset) was accepted: {:?}, {} bytes", api_name, o.verdict, o.out.len()),
                        json!({"kind": "fab", "seed": seed, "n": n, "api": api_name, "data_hex": hex(&stream), "expect": "err"}));
                }
            }
        }
    }
    // ---- dictionaries of 4096 bytes and more that are not a power of two: a distance beyond the dictionary but within
    // what a rounded-up ring would still hold must be refused (all entry points; above 4096 there is one reading of
    // "the dictionary size in effect")
    for (di, dict) in [5000u32, 4097, 6000, 12289].iter().enumerate() {
        let p = Props { lc: 3, lp: 0, pb: 2 };
        let mut prefix: Vec<Sym> = vec![];
        let mut produced = 0u64;
        let mut k = 0u32;
        while produced < *dict as u64 + 1200 {
            if k % 5 == 4 {
                prefix.push(Sym::Match { d: 1 + (k as u64 % 3), n: 100 });
                produced += 100;
            } else {
                prefix.push(Sym::Lit { b: 0x41 + (k % 50) as u8 });
                produced += 1;
            }
            k += 1;
        }
        for bad_d in [*dict as u64 + 1, *dict as u64 + 600, (*dict as u64).next_power_of_two().min(produced)] {
            if bad_d <= *dict as u64 || bad_d > produced {
                continue;
            }
            for api_name in ["raw", "oneshot", "stream"] {
                let mut cs = CS::default();
                let mut probs = Probs::default();
                let tail = vec![Sym::Match { d: 1, n: 2 }, Sym::Lit { b: b'a' }, Sym::Lit { b: b'b' }];
                // the copy reads REAL bytes (they exist further back than the dictionary reaches): code it as valid
                let (payload, total, valid_out) = {
                    let mut enc = RangeEnc::new();
                    for s in prefix.iter() {
                        let d = cs.decisions(s, p);
                        encode_decs(&mut enc, &mut probs, &d);
                        cs.apply(s);
                    }
                    let valid_out = cs.out.clone();
                    let bad = Sym::Match { d: bad_d, n: 5 };
                    let d = cs.decisions(&bad, p);
                    encode_decs(&mut enc, &mut probs, &d);
                    cs.apply(&bad);
                    for s in &tail {
                        let d = cs.decisions(s, p);
                        encode_decs(&mut enc, &mut probs, &d);
                        cs.apply(s);
                    }
                    (enc.finish(), cs.out.len(), valid_out)
                };
                let size = Some(total as u64);
                let o = match api_name {
                    "raw" => api::raw_lzma(&payload, p.lc, p.lp, p.pb, *dict, size, None).0,
                    "oneshot" => {
                        let mut d = lzma_header(p, *dict, size);
                        d.extend_from_slice(&payload);
                        api::lzma_bytes(&d, &api::options(Opt::ReadFromHeader, None, false))
                    }
                    _ => {
                        let mut d = lzma_header(p, *dict, size);
                        d.extend_from_slice(&payload);
                        let r = api::stream_run(&d, &[d.len() / 3], &api::options(Opt::ReadFromHeader, None, false));
                        api::Outcome { verdict: r.verdict, out: r.out, msg: r.msg }
                    }
                };
                rep.eval(hash_of(&(di, bad_d, api_name, "beyond-dict")), true);
                rep.count("fab_probe_beyond_dict");
                let bad_res = match o.verdict {
                    Verdict::Panic => Some(format!("panic: {}", o.msg)),
                    Verdict::Ok => Some(format!("a copy with distance {} was accepted under a dictionary of {} bytes ({} bytes delivered)", bad_d, dict, o.out.len())),
                    Verdict::Err => if !is_prefix(&o.out, &valid_out) { Some("bytes beyond the valid prefix were delivered before the error".to_string()) } else { None },
                };
                if let Some(b) = bad_res {
                    if api_name.starts_with("stream") && !b.starts_with("panic") {
                        // C09 is stated for the one-shot, LZMA2 / XZ and raw decoders; the incremental decoder is C05's
                        rep.drift(format!("(Stream, seen while checking {}) {} dict {}: {}", prop, api_name, dict, b), json!({"api": api_name}));
                    } else {
    rep.violation(prop, format!("{} dict {}: {}", api_name, dict, b), json!({"kind": "fab", "seed": seed, "n": n, "api": api_name, "dict": dict, "distance": bad_d}));
                    }
                }
            }
        }
    }
    // ---- circular window, raw decoder object used twice WITHOUT reset: the repeat distances, state and
    // probabilities of the first stream are still there, the window is new.  A repeat copy whose (carried)
    // distance exceeds what the second call has produced must be refused.  Judged only through what cannot be
    // explained otherwise: success delivering exactly the bytes fabrication would give.
    for i in 0..n {
        use lzma_rs::decompress::raw::{LzmaDecoder, LzmaParams, LzmaProperties};
        let p = Props { lc: [3, 0, 2][i % 3], lp: [0, 2, 0][i % 3], pb: [2, 0, 1][i % 3] };
        let mut cs = CS::default();
        let mut probs = Probs::default();
        let mut enc = RangeEnc::new();
        let mut warm: Vec<Sym> = random_walk(&mut rng, &WalkCfg { nsyms: 12 + i % 20, props: p, max_dist: 64, lit_alphabet: 9 });
        warm.push(Sym::Lit { b: 7 });
        for s in &warm {
            let d = cs.decisions(s, p);
            encode_decs(&mut enc, &mut probs, &d);
            cs.apply(s);
        }
        // leave distinct, large distances in the repeat registers and end in a literal
        let l0 = cs.out.len() as u64;
        for (k, dd) in [l0, l0 / 2 + 1, l0 / 3 + 1, l0 - 1].iter().enumerate() {
            let sy = Sym::Match { d: (*dd).max(1), n: 2 + k as u32 };
            if cs.valid(&sy) {
                let d = cs.decisions(&sy, p);
                encode_decs(&mut enc, &mut probs, &d);
                cs.apply(&sy);
            }
        }
        let sy = Sym::Lit { b: 3 };
        let d = cs.decisions(&sy, p);
        encode_decs(&mut enc, &mut probs, &d);
        cs.apply(&sy);
        let warm_payload = enc.finish();
        let warm_len = cs.out.len() as u64;
        let k = i % 3; // literals produced by the second call before the bad repeat
        let bad = match i % 5 {
            0 => Sym::Short,
            r => Sym::Rep { r: (r - 1) as u8, n: 2 + (i as u32 % 5) },
        };
        let mut cs2 = cs.clone();
        cs2.out.clear();
        let mut probs2 = probs.clone();
        let prefix2: Vec<Sym> = (0..k).map(|j| Sym::Lit { b: 0x51 + j as u8 }).collect();
        // validity of the bad symbol in the second call's (empty) window
        let dist = match bad {
            Sym::Short => cs2.rep[0] + 1,
            Sym::Rep { r, .. } => cs2.rep[r as usize] + 1,
            _ => 0,
        };
        if dist <= k as u64 {
            continue;
        }
        // the object keeps its declared size: the second stream must produce exactly as many bytes to end well
        let nbad = match bad {
            Sym::Rep { n, .. } => n as u64,
            _ => 1,
        };
        if warm_len < k as u64 + nbad + 2 {
            continue;
        }
        // a literal right after the copy would read its match byte at the same bad distance: continue with a
        // legal new-distance match, which replaces rep0, then literals up to the declared size
        let mut tail2: Vec<Sym> = vec![Sym::Match { d: 1, n: 2 }];
        tail2.extend((0..(warm_len - k as u64 - nbad - 2)).map(|j| Sym::Lit { b: b'a' + (j % 20) as u8 }));
        let (payload2, total2, _valid) = enc_fab(&mut cs2, &mut probs2, p, &prefix2, bad, &tail2);
        let fabricated = cs2.out.clone();
        let r = crate::io::catch(|| {
            let mut d = LzmaDecoder::new(LzmaParams::new(LzmaProperties { lc: p.lc, lp: p.lp, pb: p.pb }, 4096, Some(warm_len)), None).unwrap();
            let mut sink = vec![];
            let first_ok = d.decompress(&mut &warm_payload[..], &mut sink).is_ok();
            // no reset: decompress() twice on the same object
            let mut out = vec![];
            let res = d.decompress(&mut &payload2[..], &mut out);
            if std::env::var("LZVERIF_DEBUG").is_ok() {
                eprintln!("carried: first_ok={} res={:?} out={:?} fabricated={:?} bad={:?} k={} dist={}", first_ok, res, out, fabricated, bad, k, dist);
            }
            (first_ok && res.is_ok(), out)
        });
        rep.eval(hash_of(&(hex(&payload2), "raw-carried", i)), true);
        rep.count("fab_probe_carried");
        let _ = total2;
        match r {
            // (no listed property promises anything about decompress() on a used object that was not reset - except
            // that it never fabricates bytes, which is what this probe is about)
            crate::io::Caught::Panic(m) => rep.drift(format!("raw decoder used twice without reset: panic {}", m), json!({"api": "raw-carried"})),
            crate::io::Caught::Done((true, out)) if out == fabricated && !out.is_empty() => {
                rep.violation(prop, format!("raw decoder used twice without reset: a repeat copy with carried distance {} was accepted after only {} bytes of output; {} fabricated bytes delivered", dist, k, out.len()),
                    json!({"kind": "fab", "seed": seed, "n": n, "api": "raw-carried", "data_hex": hex(&payload2), "expect": "err"}));
            }
            crate::io::Caught::Done((true, _)) => rep.count("fab_probe_carried_other_ok"),
            crate::io::Caught::Done((false, _)) => rep.count("fab_probe_carried_refused"),
        }
    }
    if rep.samples.len() < 8 {
        rep.sample(json!({"origin": "fab_probes", "what": "valid prefix + one copy beyond the window + continuation coded as if zeros had been supplied", "count": n}));
    }
}

/// Replay of a raw-bytes case: {"api", "data_hex", "expect": "err", ...}
pub fn replay_bytes(v: &Value, prop: &str, rep: &mut Report) {
    let data = unhex(v["data_hex"].as_str().unwrap());
    let apin = v["api"].as_str().unwrap_or("oneshot");
    let o = match apin {
        "raw" => {
            let p: Props = serde_json::from_value(v["props"].clone()).unwrap();
            api::raw_lzma(&data, p.lc, p.lp, p.pb, v["dict"].as_u64().unwrap_or(4096) as u32, v["size"].as_u64(), None).0
        }
        "lzma2" => api::lzma2_bytes(&data).0,
        "xz" => {
            let f = crate::build::XzFile { check: 0, blocks: vec![crate::build::XzBlock { payload: data.clone(), content: vec![], ..Default::default() }], ..Default::default() };
            api::xz_bytes(&f.serialize().bytes)
        }
        "stream" => {
            let r = api::stream_run(&data, &[data.len() / 2], &api::options(Opt::ReadFromHeader, None, false));
            api::Outcome { verdict: r.verdict, out: r.out, msg: r.msg }
        }
        _ => api::lzma_bytes(&data, &api::options(Opt::ReadFromHeader, None, false)),
    };
    rep.eval(1, true);
    if o.verdict != Verdict::Err {
        rep.violation(prop, format!("replayed: {:?} with {} bytes", o.verdict, o.out.len()), v.clone());
    }
}

pub fn replay_value(v: &Value, prop: &str, rep: &mut Report) {
    let c: LzmaCase = serde_json::from_value(v.clone()).expect("lzma case");
    check_case(&c, prop, rep);
}

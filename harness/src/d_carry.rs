//! Offline search for inputs that drive the range ENCODER of the literal-only encoder onto exact register
//! boundaries of `write_low` (low == 0x0_FFFF_FFFF, low == 0xFF00_0000 at a byte shift) - events of
//! probability about 2^-32 per output byte that no random content hits.  A tight model of the encoder
//! (same arithmetic as kernel.rs, arrays instead of maps) is run over millions of short pseudo-random
//! inputs on all cores; an input is kept when the boundary is hit AND a variant encoder that decides the
//! boundary the other way emits different bytes (so the boundary matters for this input).
//! The kept inputs are committed in /verif/corpus and are replayed by the C04 check as ordinary inputs.

use rand::rngs::StdRng;
use rand::{Rng, SeedableRng};
use serde_json::json;
use std::sync::atomic::{AtomicBool, AtomicU64, Ordering};
use std::sync::{Arc, Mutex};

#[derive(Clone)]
struct Enc {
    low: u64,
    range: u32,
    cache: u8,
    cachesz: u64,
    out: Vec<u8>,
    // variant flags: flush when low >= 0xFFFF_FFFF (instead of >) / low <= 0xFF00_0000 (instead of <)
    v_hi: bool,
    v_lo: bool,
    hit_hi: bool,
    hit_lo: bool,
    /// longest run of pending 0xFF bytes a carry has rippled through so far
    max_carry_run: u64,
}

impl Enc {
    fn new(v_hi: bool, v_lo: bool) -> Self {
        Enc { low: 0, range: 0xFFFF_FFFF, cache: 0, cachesz: 1, out: Vec::with_capacity(2048), v_hi, v_lo, hit_hi: false, hit_lo: false, max_carry_run: 0 }
    }
    #[inline]
    fn shift_low(&mut self) {
        if self.low == 0xFFFF_FFFF {
            self.hit_hi = true;
        }
        if self.low == 0xFF00_0000 {
            self.hit_lo = true;
        }
        let below = if self.v_lo { self.low <= 0xFF00_0000 } else { self.low < 0xFF00_0000 };
        let above = if self.v_hi { self.low >= 0xFFFF_FFFF } else { self.low > 0xFFFF_FFFF };
        if below || above {
            let carry = (self.low >> 32) as u8;
            if carry != 0 && self.cachesz - 1 > self.max_carry_run {
                self.max_carry_run = self.cachesz - 1;
            }
            let mut tmp = self.cache;
            loop {
                self.out.push(tmp.wrapping_add(carry));
                tmp = 0xFF;
                self.cachesz -= 1;
                if self.cachesz == 0 {
                    break;
                }
            }
            self.cache = ((self.low >> 24) & 0xFF) as u8;
        }
        self.cachesz += 1;
        self.low = (self.low & 0x00FF_FFFF) << 8;
    }
    #[inline]
    fn bit(&mut self, prob: &mut u16, b: bool) {
        let bound = (self.range >> 11) * (*prob as u32);
        if !b {
            self.range = bound;
            *prob += (0x800 - *prob) >> 5;
        } else {
            self.low += bound as u64;
            self.range -= bound;
            *prob -= *prob >> 5;
        }
        while self.range < 0x0100_0000 {
            self.range <<= 8;
            self.shift_low();
        }
    }
}

/// literal-only encoder model (lc = 3, lp = 0, pb = 2), no end marker, size known
fn encode(input: &[u8], v_hi: bool, v_lo: bool) -> (Vec<u8>, bool, bool) {
    let mut e = Enc::new(v_hi, v_lo);
    let mut is_match = [0x400u16; 4];
    let mut lit = vec![0x400u16; 8 * 0x300];
    let mut prev = 0u8;
    for (i, &b) in input.iter().enumerate() {
        e.bit(&mut is_match[i & 3], false);
        let base = (prev as usize >> 5) * 0x300;
        let mut m = 1usize;
        for k in (0..8).rev() {
            let bit = (b >> k) & 1 != 0;
            e.bit(&mut lit[base + m], bit);
            m = (m << 1) | bit as usize;
        }
        prev = b;
    }
    for _ in 0..5 {
        e.shift_low();
    }
    (e.out, e.hit_hi, e.hit_lo)
}

pub fn search(seconds: u64, threads: usize, len: usize, out_path: &str) {
    let stop = Arc::new(AtomicBool::new(false));
    let tried = Arc::new(AtomicU64::new(0));
    let found: Arc<Mutex<Vec<serde_json::Value>>> = Arc::new(Mutex::new(vec![]));
    let mut hs = vec![];
    for t in 0..threads {
        let (stop, tried, found) = (stop.clone(), tried.clone(), found.clone());
        hs.push(std::thread::spawn(move || {
            let mut rng = StdRng::seed_from_u64(0xC0FFEE ^ (t as u64) << 32);
            let mut input = vec![0u8; len];
            while !stop.load(Ordering::Relaxed) {
                // skewed contents so that probabilities are adapted (odd values, small bounds)
                let mode = rng.gen_range(0..3);
                for x in input.iter_mut() {
                    *x = match mode {
                        0 => rng.gen(),
                        1 => if rng.gen_bool(0.85) { 0xFF } else { rng.gen() },
                        _ => [0x00u8, 0xFF, 0x7F, 0x80][rng.gen_range(0..4)],
                    };
                }
                let (o, hh, hl) = encode(&input, false, false);
                tried.fetch_add(1, Ordering::Relaxed);
                if hh || hl {
                    let (o2, _, _) = encode(&input, hh, hl);
                    if o2 != o {
                        let mut f = found.lock().unwrap();
                        f.push(json!({"boundary": if hh { "low == 0x0FFFFFFFF" } else { "low == 0xFF000000" }, "input_hex": crate::report::hex(&input)}));
                        eprintln!("[carrysearch] found {} ({} so far)", if hh { "hi" } else { "lo" }, f.len());
                    }
                }
            }
        }));
    }
    let t0 = std::time::Instant::now();
    while t0.elapsed().as_secs() < seconds {
        std::thread::sleep(std::time::Duration::from_secs(5));
        if found.lock().unwrap().len() >= 12 {
            break;
        }
    }
    stop.store(true, Ordering::Relaxed);
    for h in hs {
        let _ = h.join();
    }
    let f = found.lock().unwrap();
    eprintln!("[carrysearch] {} inputs of {} bytes tried, {} kept", tried.load(Ordering::Relaxed), len, f.len());
    if !f.is_empty() {
        std::fs::write(out_path, serde_json::to_string_pretty(&json!({"note": "inputs that put the literal-only range encoder exactly on a boundary of write_low's flush test (found by lzverif carrysearch)", "inputs": *f})).unwrap()).unwrap();
    }
}

/// Steered search for inputs on which a CARRY ripples through a long run of pending 0xFF bytes in the range
/// encoder (probability about 2^-8k for k pending bytes on arbitrary data).  Greedy with a 256-way lookahead
/// per input byte: first grow the pending run (keep the top byte of `low` at 0xFF across shifts), then pick a
/// byte that overflows `low`.  Kept inputs go to the same corpus as the boundary inputs.
pub fn search_long_carry(targets: &[u64], out_path: &str) {
    struct St {
        e: Enc,
        is_match: [u16; 4],
        lit: Vec<u16>,
        prev: u8,
        i: usize,
    }
    impl St {
        fn new() -> St {
            St { e: Enc::new(false, false), is_match: [0x400; 4], lit: vec![0x400u16; 8 * 0x300], prev: 0, i: 0 }
        }
        fn push(&mut self, b: u8) {
            let i = self.i;
            self.e.bit(&mut self.is_match[i & 3], false);
            let base = (self.prev as usize >> 5) * 0x300;
            let mut m = 1usize;
            for k in (0..8).rev() {
                let bit = (b >> k) & 1 != 0;
                self.e.bit(&mut self.lit[base + m], bit);
                m = (m << 1) | bit as usize;
            }
            self.prev = b;
            self.i += 1;
        }
        fn fork(&self) -> St {
            St { e: self.e.clone(), is_match: self.is_match, lit: self.lit.clone(), prev: self.prev, i: self.i }
        }
    }
    let mut found: Vec<serde_json::Value> = vec![];
    if let Ok(t) = std::fs::read_to_string(out_path) {
        if let Ok(j) = serde_json::from_str::<serde_json::Value>(&t) {
            if let Some(a) = j["inputs"].as_array() {
                found = a.clone();
            }
        }
    }
    let mut rng = StdRng::seed_from_u64(0xCA227);
    for &target in targets {
        let mut done = false;
        for attempt in 0..20000 {
            let mut st = St::new();
            let mut input: Vec<u8> = vec![];
            // random warm-up so that different attempts adapt the probabilities differently
            for _ in 0..rng.gen_range(0..6) {
                let b: u8 = rng.gen();
                st.push(b);
                input.push(b);
            }
            // The interval [low, low + range) must keep STRADDLING the carry boundary 2^32 of the low register: then
            // every shifted-out byte is a pending 0xFF, and the final choice of the upper sub-interval carries
            // through all of them.  (A run of 0xFF bytes that does not straddle - all-ones data - can never carry.)
            while input.len() < 600 {
                let pending = st.e.cachesz.saturating_sub(1);
                let mut keep: Vec<u8> = vec![];
                let mut carry: Vec<u8> = vec![];
                for b in 0..=255u8 {
                    let mut f = st.fork();
                    let before = f.e.max_carry_run;
                    f.push(b);
                    if f.e.max_carry_run > before && f.e.max_carry_run >= target {
                        carry.push(b);
                    }
                    if f.e.low < (1u64 << 32) && f.e.low + f.e.range as u64 > (1u64 << 32) && f.e.cachesz >= st.e.cachesz.min(2) {
                        keep.push(b);
                    }
                }
                if pending >= target && !carry.is_empty() {
                    let b = carry[rng.gen_range(0..carry.len())];
                    st.push(b);
                    input.push(b);
                    done = true;
                    break;
                }
                let straddling = st.e.low < (1u64 << 32) && st.e.low + st.e.range as u64 > (1u64 << 32);
                let b = if !keep.is_empty() {
                    keep[rng.gen_range(0..keep.len())]
                } else if straddling && pending > 0 {
                    break; // lost it: restart
                } else {
                    // not straddling yet: skewed bytes adapt the is_match / literal probabilities
                    if rng.gen_bool(0.5) { rng.gen() } else { [0x00u8, 0xFF, 0x7F, 0x80][rng.gen_range(0..4)] }
                };
                st.push(b);
                input.push(b);
            }
            if done {
                // a few more bytes so that the stream goes on after the carry
                for _ in 0..8 {
                    let b: u8 = rng.gen();
                    st.push(b);
                    input.push(b);
                }
                let run = st.e.max_carry_run;
                eprintln!("[carrysearch] carry through {} pending bytes with a {}-byte input (attempt {})", run, input.len(), attempt);
                found.push(json!({"boundary": format!("carry through {} pending 0xFF bytes", run), "input_hex": crate::report::hex(&input)}));
                break;
            }
        }
        if !done {
            eprintln!("[carrysearch] no input found for a carry through {} pending bytes", target);
        }
    }
    std::fs::write(out_path, serde_json::to_string_pretty(&json!({"note": "inputs that put the literal-only range encoder exactly on a boundary of write_low's flush test, or make a carry ripple through a long run of pending bytes (found by lzverif carrysearch)", "inputs": found})).unwrap()).unwrap();
}

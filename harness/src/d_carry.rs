//! Offline search for inputs that drive the range ENCODER of the literal-only encoder onto exact register
//! boundaries of `write_low` (low == 0x0_FFFF_FFFF, low == 0xFF00_0000 at a byte shift) - events of
//! probability about 2^-32 per output byte that no random content hits.  A tight model of the encoder
//! (same arithmetic as kernel.rs, arrays instead of maps) is run over millions of short pseudo-random
//! inputs on all cores; an input is kept when the boundary is hit AND a variant encoder that decides the
//! boundary the other way emits different bytes (so the boundary matters for this input).
//! The kept inputs are committed in /verif/corpus and are replayed by the C04 check as ordinary inputs.

use rand::rngs::StdRng;
use rand::{Rng, SeedableRng};
use serde_json::json;
use std::sync::atomic::{AtomicBool, AtomicU64, Ordering};
use std::sync::{Arc, Mutex};

#[derive(Clone)]
struct Enc {
    low: u64,
    range: u32,
    cache: u8,
    cachesz: u64,
    out: Vec<u8>,
    // variant flags: flush when low >= 0xFFFF_FFFF (instead of >) / low <= 0xFF00_0000 (instead of <)
    v_hi: bool,
    v_lo: bool,
    hit_hi: bool,
    hit_lo: bool,
}

impl Enc {
    fn new(v_hi: bool, v_lo: bool) -> Self {
        Enc { low: 0, range: 0xFFFF_FFFF, cache: 0, cachesz: 1, out: Vec::with_capacity(2048), v_hi, v_lo, hit_hi: false, hit_lo: false }
    }
    #[inline]
    fn shift_low(&mut self) {
        if self.low == 0xFFFF_FFFF {
            self.hit_hi = true;
        }
        if self.low == 0xFF00_0000 {
            self.hit_lo = true;
        }
        let below = if self.v_lo { self.low <= 0xFF00_0000 } else { self.low < 0xFF00_0000 };
        let above = if self.v_hi { self.low >= 0xFFFF_FFFF } else { self.low > 0xFFFF_FFFF };
        if below || above {
            let carry = (self.low >> 32) as u8;
            let mut tmp = self.cache;
            loop {
                self.out.push(tmp.wrapping_add(carry));
                tmp = 0xFF;
                self.cachesz -= 1;
                if self.cachesz == 0 {
                    break;
                }
            }
            self.cache = ((self.low >> 24) & 0xFF) as u8;
        }
        self.cachesz += 1;
        self.low = (self.low & 0x00FF_FFFF) << 8;
    }
    #[inline]
    fn bit(&mut self, prob: &mut u16, b: bool) {
        let bound = (self.range >> 11) * (*prob as u32);
        if !b {
            self.range = bound;
            *prob += (0x800 - *prob) >> 5;
        } else {
            self.low += bound as u64;
            self.range -= bound;
            *prob -= *prob >> 5;
        }
        while self.range < 0x0100_0000 {
            self.range <<= 8;
            self.shift_low();
        }
    }
}

/// literal-only encoder model (lc = 3, lp = 0, pb = 2), no end marker, size known
fn encode(input: &[u8], v_hi: bool, v_lo: bool) -> (Vec<u8>, bool, bool) {
    let mut e = Enc::new(v_hi, v_lo);
    let mut is_match = [0x400u16; 4];
    let mut lit = vec![0x400u16; 8 * 0x300];
    let mut prev = 0u8;
    for (i, &b) in input.iter().enumerate() {
        e.bit(&mut is_match[i & 3], false);
        let base = (prev as usize >> 5) * 0x300;
        let mut m = 1usize;
        for k in (0..8).rev() {
            let bit = (b >> k) & 1 != 0;
            e.bit(&mut lit[base + m], bit);
            m = (m << 1) | bit as usize;
        }
        prev = b;
    }
    for _ in 0..5 {
        e.shift_low();
    }
    (e.out, e.hit_hi, e.hit_lo)
}

pub fn search(seconds: u64, threads: usize, len: usize, out_path: &str) {
    let stop = Arc::new(AtomicBool::new(false));
    let tried = Arc::new(AtomicU64::new(0));
    let found: Arc<Mutex<Vec<serde_json::Value>>> = Arc::new(Mutex::new(vec![]));
    let mut hs = vec![];
    for t in 0..threads {
        let (stop, tried, found) = (stop.clone(), tried.clone(), found.clone());
        hs.push(std::thread::spawn(move || {
            let mut rng = StdRng::seed_from_u64(0xC0FFEE ^ (t as u64) << 32);
            let mut input = vec![0u8; len];
            while !stop.load(Ordering::Relaxed) {
                // skewed contents so that probabilities are adapted (odd values, small bounds)
                let mode = rng.gen_range(0..3);
                for x in input.iter_mut() {
                    *x = match mode {
                        0 => rng.gen(),
                        1 => if rng.gen_bool(0.85) { 0xFF } else { rng.gen() },
                        _ => [0x00u8, 0xFF, 0x7F, 0x80][rng.gen_range(0..4)],
                    };
                }
                let (o, hh, hl) = encode(&input, false, false);
                tried.fetch_add(1, Ordering::Relaxed);
                if hh || hl {
                    let (o2, _, _) = encode(&input, hh, hl);
                    if o2 != o {
                        let mut f = found.lock().unwrap();
                        f.push(json!({"boundary": if hh { "low == 0x0FFFFFFFF" } else { "low == 0xFF000000" }, "input_hex": crate::report::hex(&input)}));
                        eprintln!("[carrysearch] found {} ({} so far)", if hh { "hi" } else { "lo" }, f.len());
                    }
                }
            }
        }));
    }
    let t0 = std::time::Instant::now();
    while t0.elapsed().as_secs() < seconds {
        std::thread::sleep(std::time::Duration::from_secs(5));
        if found.lock().unwrap().len() >= 12 {
            break;
        }
    }
    stop.store(true, Ordering::Relaxed);
    for h in hs {
        let _ = h.join();
    }
    let f = found.lock().unwrap();
    eprintln!("[carrysearch] {} inputs of {} bytes tried, {} kept", tried.load(Ordering::Relaxed), len, f.len());
    if !f.is_empty() {
        std::fs::write(out_path, serde_json::to_string_pretty(&json!({"note": "inputs that put the literal-only range encoder exactly on a boundary of write_low's flush test (found by lzverif carrysearch)", "inputs": *f})).unwrap()).unwrap();
    }
}

//! Uniform access to every public entry point of lzma-rs, with panic capture.

use crate::io::{catch, Caught, SharedSink};
use lzma_rs::decompress::raw::{Lzma2Decoder, LzmaDecoder, LzmaParams, LzmaProperties};
use lzma_rs::decompress::{Options, Stream, UnpackedSize};
use serde::{Deserialize, Serialize};
use std::io::{BufRead, Write};

#[derive(Clone, Copy, Debug, PartialEq, Eq, Serialize, Deserialize)]
#[serde(rename_all = "lowercase")]
pub enum Verdict {
    Ok,
    Err,
    Panic,
}

#[derive(Clone, Debug)]
pub struct Outcome {
    pub verdict: Verdict,
    pub out: Vec<u8>,
    pub msg: String,
}

impl Outcome {
    pub fn ok(&self) -> bool {
        self.verdict == Verdict::Ok
    }
}

/// Decode option in serialisable form.
#[derive(Clone, Copy, Debug, PartialEq, Eq, Serialize, Deserialize)]
#[serde(tag = "kind")]
pub enum Opt {
    ReadFromHeader,
    ReadHeaderButUseProvided { n: Option<u64> },
    UseProvided { n: Option<u64> },
}

impl Opt {
    pub fn to_unpacked(self) -> UnpackedSize {
        match self {
            Opt::ReadFromHeader => UnpackedSize::ReadFromHeader,
            Opt::ReadHeaderButUseProvided { n } => UnpackedSize::ReadHeaderButUseProvided(n),
            Opt::UseProvided { n } => UnpackedSize::UseProvided(n),
        }
    }
    pub fn header_len(self) -> usize {
        match self {
            Opt::UseProvided { .. } => 5,
            _ => 13,
        }
    }
}

pub fn options(opt: Opt, memlimit: Option<usize>, allow_incomplete: bool) -> Options {
    Options {
        unpacked_size: opt.to_unpacked(),
        memlimit,
        allow_incomplete,
    }
}

fn wrap<E: std::fmt::Debug>(c: Caught<Result<(), E>>, out: Vec<u8>) -> Outcome {
    match c {
        Caught::Done(Ok(())) => Outcome {
            verdict: Verdict::Ok,
            out,
            msg: String::new(),
        },
        Caught::Done(Err(e)) => Outcome {
            verdict: Verdict::Err,
            out,
            msg: format!("{:?}", e),
        },
        Caught::Panic(m) => Outcome {
            verdict: Verdict::Panic,
            out,
            msg: m,
        },
    }
}

pub fn lzma_oneshot<R: BufRead, W: Write>(input: &mut R, sink: &mut W, o: &Options) -> (Verdict, String) {
    match catch(|| lzma_rs::lzma_decompress_with_options(input, sink, o)) {
        Caught::Done(Ok(())) => (Verdict::Ok, String::new()),
        Caught::Done(Err(e)) => (Verdict::Err, format!("{:?}", e)),
        Caught::Panic(m) => (Verdict::Panic, m),
    }
}

pub fn lzma_bytes(data: &[u8], o: &Options) -> Outcome {
    let mut out = Vec::new();
    let mut rd = data;
    // with default options every other call goes through the plain entry point, which must be the same decoder
    let c = if is_default(o) && data.len() % 2 == 0 {
        catch(|| lzma_rs::lzma_decompress(&mut rd, &mut out))
    } else {
        catch(|| lzma_rs::lzma_decompress_with_options(&mut rd, &mut out, o))
    };
    wrap(c, out)
}

/// The plain entry point `lzma_decompress` (default options).
pub fn lzma_plain(data: &[u8]) -> Outcome {
    let mut out = Vec::new();
    let mut rd = data;
    let c = catch(|| lzma_rs::lzma_decompress(&mut rd, &mut out));
    wrap(c, out)
}

/// `lzma_decompress` with the input position afterwards.
pub fn lzma_plain_consumed(data: &[u8]) -> (Outcome, usize) {
    let mut out = Vec::new();
    let mut rd = data;
    let c = catch(|| lzma_rs::lzma_decompress(&mut rd, &mut out));
    let left = rd.len();
    (wrap(c, out), data.len() - left)
}

/// The documented raw building blocks: LzmaParams::read_header + LzmaDecoder::new + decompress.
pub fn lzma_blocks_consumed(data: &[u8], o: &Options) -> (Outcome, usize) {
    let mut out = Vec::new();
    let mut rd = data;
    let c = catch(|| -> Result<(), lzma_rs::error::Error> {
        let params = LzmaParams::read_header(&mut rd, o)?;
        let mut d = LzmaDecoder::new(params, o.memlimit)?;
        d.decompress(&mut rd, &mut out)
    });
    let left = rd.len();
    (wrap(c, out), data.len() - left)
}

/// A raw decoder built with another size, then told the real one through reset(Some(size)): payload only (no header).
pub fn raw_lzma_resized(payload: &[u8], lc: u32, lp: u32, pb: u32, dict: u32, built_with: Option<u64>, size: Option<u64>) -> (Outcome, usize) {
    let mut out = Vec::new();
    let mut rd = payload;
    let c = catch(|| {
        let params = LzmaParams::new(LzmaProperties { lc, lp, pb }, dict, built_with);
        let mut d = LzmaDecoder::new(params, None)?;
        d.reset(Some(size));
        d.decompress(&mut rd, &mut out)
    });
    let left = rd.len();
    (wrap(c, out), payload.len() - left)
}

fn is_default(o: &Options) -> bool {
    matches!(o.unpacked_size, lzma_rs::decompress::UnpackedSize::ReadFromHeader) && o.memlimit.is_none() && !o.allow_incomplete
}

/// Like `lzma_bytes` but also reports how many input bytes were consumed.
pub fn lzma_bytes_consumed(data: &[u8], o: &Options) -> (Outcome, usize) {
    let mut out = Vec::new();
    let mut rd = data;
    let c = catch(|| lzma_rs::lzma_decompress_with_options(&mut rd, &mut out, o));
    let left = rd.len();
    (wrap(c, out), data.len() - left)
}

pub fn lzma2_bytes(data: &[u8]) -> (Outcome, usize) {
    let mut out = Vec::new();
    let mut rd = data;
    let c = catch(|| lzma_rs::lzma2_decompress(&mut rd, &mut out));
    let left = rd.len();
    (wrap(c, out), data.len() - left)
}

pub fn xz_bytes(data: &[u8]) -> Outcome {
    let mut out = Vec::new();
    let mut rd = data;
    let c = catch(|| lzma_rs::xz_decompress(&mut rd, &mut out));
    wrap(c, out)
}

pub fn raw_lzma(payload: &[u8], lc: u32, lp: u32, pb: u32, dict: u32, size: Option<u64>, memlimit: Option<usize>) -> (Outcome, usize) {
    let mut out = Vec::new();
    let mut rd = payload;
    // the constructor on its own: a panic there (the assertions on lc / lp / pb) is the constructor NOT accepting the
    // parameters - C07 speaks about "any parameter values their constructors accept"
    let built = catch(|| {
        let params = LzmaParams::new(LzmaProperties { lc, lp, pb }, dict, size);
        LzmaDecoder::new(params, memlimit)
    });
    let mut d = match built {
        Caught::Done(Ok(d)) => d,
        Caught::Done(Err(e)) => return (Outcome { verdict: Verdict::Err, out: vec![], msg: format!("constructor: {:?}", e) }, 0),
        Caught::Panic(m) => return (Outcome { verdict: Verdict::Err, out: vec![], msg: format!("constructor refused (panic): {}", m) }, 0),
    };
    let c = catch(|| d.decompress(&mut rd, &mut out));
    let left = rd.len();
    (wrap(c, out), payload.len() - left)
}

/// The same decode on an object that first saw `warm` (any stream) and was then reset: a reset decoder must behave
/// like a new one, so the raw entry point is exercised in both conditions.
pub fn raw_lzma_reused(payload: &[u8], lc: u32, lp: u32, pb: u32, dict: u32, size: Option<u64>, memlimit: Option<usize>, warm: &[u8]) -> (Outcome, usize) {
    let mut out = Vec::new();
    let mut rd = payload;
    let c = catch(|| {
        let params = LzmaParams::new(LzmaProperties { lc, lp, pb }, dict, size);
        let mut d = LzmaDecoder::new(params, memlimit)?;
        let mut scratch = Vec::new();
        let mut w = warm;
        let _ = d.decompress(&mut w, &mut scratch);
        d.reset(Some(size));
        d.decompress(&mut rd, &mut out)
    });
    let left = rd.len();
    (wrap(c, out), payload.len() - left)
}

pub fn raw_lzma2(data: &[u8]) -> (Outcome, usize) {
    let mut out = Vec::new();
    let mut rd = data;
    let c = catch(|| Lzma2Decoder::new().decompress(&mut rd, &mut out));
    let left = rd.len();
    (wrap(c, out), data.len() - left)
}

/// Result of driving `Stream` with a sequence of pieces (the fixed driver semantics of
/// DESIGN.md §5 C05: each piece is offered repeatedly until consumed, or until write
/// returns Ok(0) or Err).
#[derive(Clone, Debug)]
pub struct StreamRun {
    pub verdict: Verdict,
    /// sink contents at the end (via the shared sink, so available on error too)
    pub out: Vec<u8>,
    /// first call that failed: ("write", piece index) / ("finish", 0)
    pub failed_at: Option<(String, usize)>,
    /// a write returned Ok(0) for a non-empty piece while not latched: piece index
    pub zero_progress_at: Option<usize>,
    pub msg: String,
    /// per write call: (offered, returned or -1 for Err, sink len after)
    pub calls: Vec<(usize, i64, usize)>,
    pub offered_total: usize,
}

pub fn stream_run(data: &[u8], cuts: &[usize], o: &Options) -> StreamRun {
    let sink = SharedSink::new();
    let mut calls = vec![];
    let mut failed_at = None;
    let mut zero_at = None;
    let mut msg = String::new();
    let mut offered_total = 0usize;
    let sink2 = sink.clone();
    let c = catch(|| {
        let mut s = Stream::new_with_options(o, sink2);
        let mut pos = 0usize;
        let mut pieces: Vec<(usize, usize)> = vec![];
        for &c in cuts {
            let c = c.min(data.len());
            if c >= pos {
                pieces.push((pos, c));
                pos = c;
            }
        }
        pieces.push((pos, data.len()));
        // (flush() is not part of the call sequences here: C05 / C08 quantify over divisions into write calls followed
        // by finish; what flush() may do is exercised under C12 and observed by the traces of C16)
        let flushing = false;
        'outer: for (pi, (a, b)) in pieces.iter().enumerate() {
            if flushing && pi > 0 {
                let _ = s.flush();
            }
            let mut p = &data[*a..*b];
            let mut first = true;
            while !p.is_empty() || first {
                first = false;
                match s.write(p) {
                    Ok(n) => {
                        calls.push((p.len(), n as i64, sink.len()));
                        offered_total += n;
                        if n == 0 && !p.is_empty() {
                            zero_at = Some(pi);
                            break 'outer;
                        }
                        p = &p[n..];
                    }
                    Err(e) => {
                        calls.push((p.len(), -1, sink.len()));
                        failed_at = Some(("write".to_string(), pi));
                        msg = format!("{:?}", e);
                        break 'outer;
                    }
                }
            }
        }
        if flushing && failed_at.is_none() && zero_at.is_none() {
            let _ = s.flush();
        }
        match s.finish() {
            Ok(_) => Ok(()),
            Err(e) => {
                if failed_at.is_none() {
                    failed_at = Some(("finish".to_string(), 0));
                    msg = format!("{:?}", e);
                }
                Err(())
            }
        }
    });
    let verdict = match c {
        Caught::Done(Ok(())) => {
            if failed_at.is_some() {
                Verdict::Err
            } else {
                Verdict::Ok
            }
        }
        Caught::Done(Err(())) => Verdict::Err,
        Caught::Panic(m) => {
            msg = m;
            Verdict::Panic
        }
    };
    StreamRun {
        verdict,
        out: sink.bytes(),
        failed_at,
        zero_progress_at: zero_at,
        msg,
        calls,
        offered_total,
    }
}

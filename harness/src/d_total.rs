//! Driver for C07: every decoding entry point is total (no panic, no hang, bounded memory)
//! on arbitrary bytes.  Cases are a pure function of (seed, index) so that any of them can
//! be regenerated; a watchdog thread detects hangs; the counting allocator measures the peak.

use crate::api::{self, Opt, Verdict};
use crate::build::{lzma2_stream, lzma_header, Chunk, XzBlock, XzFile};
use crate::coding::{self, Props, Sym};
use crate::d_lzma::{random_walk, WalkCfg};
use crate::io::alloc;
use crate::report::{hash_of, hex, unhex, Report};
use rand::rngs::StdRng;
use rand::{Rng, SeedableRng};
use serde_json::{json, Value};
use std::sync::atomic::{AtomicU64, AtomicUsize, Ordering};
use std::sync::{Arc, Mutex};

#[derive(Clone, Debug)]
pub struct Case {
    pub api: String,
    pub data: Vec<u8>,
    pub opt: Opt,
    pub memlimit: Option<usize>,
    pub raw: Option<(u32, u32, u32, u32, Option<u64>)>, // lc lp pb dict size
    pub cuts: Vec<usize>,
    pub family: String,
}

fn rand_opt(rng: &mut StdRng) -> Opt {
    let n = match rng.gen_range(0..6) {
        0 => None,
        1 => Some(0),
        2 => Some(rng.gen_range(0..5000)),
        3 => Some(1 << 31),
        4 => Some(u32::MAX as u64),
        _ => Some(u64::MAX - rng.gen_range(0..3)),
    };
    match rng.gen_range(0..3) {
        0 => Opt::ReadFromHeader,
        1 => Opt::ReadHeaderButUseProvided { n },
        _ => Opt::UseProvided { n },
    }
}

fn valid_lzma(rng: &mut StdRng) -> Vec<u8> {
    let p = Props { lc: rng.gen_range(0..=8), lp: rng.gen_range(0..=4), pb: rng.gen_range(0..=4) };
    let ns = [1usize, 8, 60, 400][rng.gen_range(0..4)];
    let mut prog = random_walk(rng, &WalkCfg { nsyms: ns, props: p, max_dist: 4096, lit_alphabet: 256 });
    let sized = rng.gen_bool(0.5);
    let e0 = coding::encode_program(&prog, p);
    if !sized {
        prog.push(Sym::Eos);
    }
    let e = coding::encode_program(&prog, p);
    let mut d = lzma_header(p, [0u32, 4096, 1 << 20][rng.gen_range(0..3)], Some(if sized { e0.out.len() as u64 } else { u64::MAX }));
    d.extend_from_slice(&e.payload);
    d
}

fn valid_lzma2(rng: &mut StdRng) -> Vec<u8> {
    let lc = rng.gen_range(0..=4);
    let p = Props { lc, lp: rng.gen_range(0..=(4 - lc)), pb: rng.gen_range(0..=4) };
    let mut chunks = vec![];
    if rng.gen_bool(0.5) {
        chunks.push(Chunk::Raw { reset: true, data: (0..rng.gen_range(1..300)).map(|_| rng.gen()).collect() });
    }
    let nsy = rng.gen_range(1..200);
    let prog = random_walk(rng, &WalkCfg { nsyms: nsy, props: p, max_dist: 4096, lit_alphabet: 256 });
    chunks.push(Chunk::Lzma { class: 3, props: Some(p), prog });
    if rng.gen_bool(0.3) {
        chunks.push(Chunk::Raw { reset: false, data: vec![1, 2, 3] });
    }
    lzma2_stream(&chunks).0
}

fn valid_xz(rng: &mut StdRng, extreme: bool) -> Vec<u8> {
    let mut f = XzFile { check: [0u8, 1, 4][rng.gen_range(0..3)], ..Default::default() };
    for _ in 0..rng.gen_range(0..3) {
        let l2 = valid_lzma2(rng);
        let content = crate::oracle::expect_lzma2(&l2).out;
        f.blocks.push(XzBlock { payload: l2, content, has_packed: rng.gen(), has_unpacked: rng.gen(), hsize: [0usize, 16, 64][rng.gen_range(0..3)], ..Default::default() });
    }
    if extreme {
        // one field set to an extreme value, enclosing CRCs repaired by the serialiser
        let ext: [u64; 7] = [0, 1, 1 << 31, u32::MAX as u64, 1 << 32, (1 << 62) + 5, (1u64 << 63) - 1];
        let v = ext[rng.gen_range(0..ext.len())];
        let nb = f.blocks.len();
        match rng.gen_range(0..10) {
            9 if nb > 0 => f.blocks[0].props_size_decl = Some(v),
            0 => f.backward = Some(v as u32),
            1 => f.backward = Some(u32::MAX),
            2 => f.idx_count = Some(v),
            3 if nb > 0 => f.idx_rec = Some((0, rng.gen_range(0..2), v)),
            4 if nb > 0 => {
                f.blocks[0].has_packed = true;
                f.blocks[0].packed_decl = Some(v);
            }
            5 if nb > 0 => {
                f.blocks[0].has_unpacked = true;
                f.blocks[0].unpacked_decl = Some(v);
            }
            6 if nb > 0 => f.blocks[0].hsize_byte = Some([0u8, 1, 0xFF, 0x80][rng.gen_range(0..4)]),
            7 if nb > 0 => f.blocks[0].filter_id = Some(v),
            8 if nb > 0 => f.blocks[0].filter_props = Some(vec![0; [0usize, 2, 200][rng.gen_range(0..3)]]),
            _ => f.varint_pad = rng.gen_range(1..9),
        }
    }
    f.serialize().bytes
}

fn mutate(rng: &mut StdRng, mut d: Vec<u8>, other: &[u8]) -> (Vec<u8>, &'static str) {
    if d.is_empty() {
        return (d, "empty");
    }
    match rng.gen_range(0..8) {
        0 => {
            for _ in 0..rng.gen_range(1..4) {
                let k = rng.gen_range(0..d.len());
                d[k] ^= 1 << rng.gen_range(0..8);
            }
            (d, "bitflips")
        }
        1 => {
            let k = rng.gen_range(0..d.len());
            d.truncate(k);
            (d, "truncated")
        }
        2 => {
            let a = rng.gen_range(0..d.len());
            let b = rng.gen_range(a..d.len().min(a + 40));
            let ins: Vec<u8> = d[a..b].to_vec();
            let at = rng.gen_range(0..=d.len());
            for (i, x) in ins.iter().enumerate() {
                d.insert(at + i, *x);
            }
            (d, "duplicated")
        }
        3 => {
            let a = rng.gen_range(0..=d.len());
            let b = rng.gen_range(0..=other.len());
            d.truncate(a);
            d.extend_from_slice(&other[b..]);
            (d, "spliced")
        }
        4 => {
            // field extremes in the first 13 bytes
            let k = rng.gen_range(0..d.len().min(13));
            let w = rng.gen_range(1..=8).min(d.len() - k);
            let fill = [0u8, 0xFF, 0x80, 0x7F][rng.gen_range(0..4)];
            for x in d[k..k + w].iter_mut() {
                *x = fill;
            }
            (d, "field-extreme")
        }
        5 => {
            let k = rng.gen_range(0..d.len());
            d[k] = [0u8, 0xFF, 0x80, 1][rng.gen_range(0..4)];
            (d, "byte-extreme")
        }
        6 => {
            for _ in 0..rng.gen_range(1..20) {
                d.push(rng.gen());
            }
            (d, "trailing")
        }
        _ => (d, "valid"),
    }
}

pub fn gen_case(seed: u64, idx: u64) -> Case {
    let mut rng = StdRng::seed_from_u64(seed.wrapping_mul(0x9E37_79B9_7F4A_7C15) ^ idx.wrapping_mul(0xD1B5_4A32_D192_ED03));
    let fam = idx % 11;
    let apis = ["lzma", "lzma2", "xz", "raw-lzma", "raw-lzma2", "stream"];
    let mut c = Case { api: String::new(), data: vec![], opt: Opt::ReadFromHeader, memlimit: None, raw: None, cuts: vec![], family: String::new() };
    match fam {
        0 => {
            let n = rng.gen_range(0..200);
            c.data = (0..n).map(|_| rng.gen()).collect();
            c.api = apis[rng.gen_range(0..apis.len())].to_string();
            c.family = "random-bytes".into();
        }
        1 => {
            // random but with a plausible header so that decoding gets going
            let n = rng.gen_range(0..300);
            let mut d = vec![rng.gen_range(0..225u8)];
            d.extend_from_slice(&[0, 0, rng.gen_range(0..2), 0]);
            d.extend_from_slice(&[0xFF; 8]);
            d.push(0);
            d.extend((0..n).map(|_| rng.gen::<u8>()));
            c.data = d;
            c.api = ["lzma", "stream"][rng.gen_range(0..2)].to_string();
            c.family = "random-after-header".into();
        }
        2 | 3 => {
            let v = valid_lzma(&mut rng);
            let o = valid_lzma(&mut rng);
            let (d, m) = mutate(&mut rng, v, &o);
            c.data = d;
            c.api = ["lzma", "stream"][(fam - 2) as usize].to_string();
            c.family = format!("lzma/{}", m);
        }
        4 => {
            let v = valid_lzma2(&mut rng);
            let o = valid_lzma2(&mut rng);
            let (d, m) = mutate(&mut rng, v, &o);
            c.data = d;
            c.api = ["lzma2", "raw-lzma2"][rng.gen_range(0..2)].to_string();
            c.family = format!("lzma2/{}", m);
        }
        5 => {
            let v = valid_xz(&mut rng, false);
            let o = valid_xz(&mut rng, false);
            let (d, m) = mutate(&mut rng, v, &o);
            c.data = d;
            c.api = "xz".into();
            c.family = format!("xz/{}", m);
        }
        6 => {
            c.data = valid_xz(&mut rng, true);
            c.api = "xz".into();
            c.family = "xz/field-extreme-crc-repaired".into();
        }
        7 => {
            // raw LZMA decoder, arbitrary parameters
            let v = valid_lzma(&mut rng);
            let p = Props::from_byte(v[0]).unwrap();
            let payload = v[13..].to_vec();
            let (d, m) = mutate(&mut rng, payload.clone(), &payload);
            c.data = d;
            let dict = [0u32, 1, 2, 7, 4096, 1 << 31, u32::MAX][rng.gen_range(0..7)];
            let size = match rng.gen_range(0..5) {
                0 => None,
                1 => Some(0),
                2 => Some(rng.gen_range(0..3000)),
                3 => Some(u32::MAX as u64 + 1),
                _ => Some(u64::MAX),
            };
            // (also triples outside the ranges of the format: whatever the constructor accepts must decode without panic)
            let (lc, lp, pb) = match rng.gen_range(0..10) {
                0..=5 => (p.lc, p.lp, p.pb),
                6 | 7 => (rng.gen_range(0..=8), rng.gen_range(0..=4), rng.gen_range(0..=4)),
                8 => (rng.gen_range(0..=40), rng.gen_range(0..=9), rng.gen_range(0..=9)),
                _ => ([9u32, 10, 12, 16, 31, 32, 255, u32::MAX][rng.gen_range(0..8)], [0u32, 4, 5][rng.gen_range(0..3)], [0u32, 4, 5, 32][rng.gen_range(0..4)]),
            };
            c.raw = Some((lc, lp, pb, dict, size));
            c.memlimit = [None, Some(0), Some(1), Some(100), Some(1 << 30)][rng.gen_range(0..5)];
            c.api = "raw-lzma".into();
            c.family = format!("raw-lzma/{}", m);
        }
        8 => {
            // header announces a huge dictionary and size, little or no data follows
            let mut d = vec![rng.gen_range(0..225u8)];
            d.extend_from_slice(&[0xFF, 0xFF, 0xFF, [0xFFu8, 0x7F][rng.gen_range(0..2)]]);
            let sz: u64 = [u64::MAX - 1, 1 << 40, 1 << 62][rng.gen_range(0..3)];
            d.extend_from_slice(&sz.to_le_bytes());
            let n = rng.gen_range(0..40);
            d.extend((0..n).map(|_| rng.gen::<u8>()));
            c.data = d;
            c.api = ["lzma", "stream"][rng.gen_range(0..2)].to_string();
            c.family = "huge-header".into();
        }
        10 => {
            // LZMA2 sequences that the format forbids but a decoder will meet: state carried over a dictionary
            // reset (uncompressed reset chunk, then an LZMA chunk without state reset), chunks without properties,
            // so that rep distances / matched literals point before the start of the new dictionary
            use crate::build::{lzma2_chunk_header, L2State};
            let lc = rng.gen_range(0..=4);
            let p = Props { lc, lp: rng.gen_range(0..=(4 - lc)), pb: rng.gen_range(0..=4) };
            let mut st = L2State::default();
            let mut stream: Vec<u8> = vec![];
            let n1 = rng.gen_range(1..40);
            let mut prog = random_walk(&mut rng, &WalkCfg { nsyms: n1, props: p, max_dist: 4096, lit_alphabet: 9 });
            prog.push(Sym::Lit { b: 1 });
            prog.push(Sym::Lit { b: 2 });
            prog.push(Sym::Match { d: 2, n: rng.gen_range(2..30) });
            stream.extend_from_slice(&st.push(&Chunk::Lzma { class: 3, props: Some(p), prog }).bytes);
            if rng.gen_bool(0.7) {
                let k = rng.gen_range(1..4);
                stream.extend_from_slice(&st.push(&Chunk::Raw { reset: true, data: vec![7; k] }).bytes);
            }
            // next chunk keeps state and reps: its first symbol is a literal (matched literal!), a short rep or a rep match
            let first = match rng.gen_range(0..4) {
                0 => Sym::Lit { b: 9 },
                1 => Sym::Short,
                2 => Sym::Rep { r: rng.gen_range(0..4), n: 3 },
                _ => Sym::Match { d: rng.gen_range(1..20), n: 2 },
            };
            let class = rng.gen_range(0..2u8);
            let ch = st.push(&Chunk::Lzma { class, props: None, prog: vec![first, Sym::Lit { b: 3 }, Sym::Lit { b: 4 }] });
            let payload = ch.bytes[ch.payload_off..].to_vec();
            let mut b = lzma2_chunk_header(class, rng.gen_range(1..6), payload.len(), None);
            b.extend_from_slice(&payload);
            stream.extend_from_slice(&b);
            stream.push(0);
            if rng.gen_bool(0.3) {
                let f = XzFile { check: 1, blocks: vec![XzBlock { payload: stream.clone(), content: vec![], ..Default::default() }], ..Default::default() };
                c.data = f.serialize().bytes;
                c.api = "xz".into();
            } else {
                c.data = stream;
                c.api = ["lzma2", "raw-lzma2"][rng.gen_range(0..2)].to_string();
            }
            c.family = "lzma2/state-carried-over-dict-reset".into();
        }
        _ => {
            // decompression "bomb": tiny input, big output (memory must follow the OUTPUT, not more)
            let p = Props { lc: 3, lp: 0, pb: 2 };
            let reps = rng.gen_range(1..3000);
            let mut prog = vec![Sym::Lit { b: 65 }];
            for _ in 0..reps {
                prog.push(Sym::Rep { r: 0, n: 273 });
            }
            prog.push(Sym::Eos);
            let e = coding::encode_program(&prog, p);
            let mut d = lzma_header(p, [4096u32, 1 << 16, u32::MAX][rng.gen_range(0..3)], Some(u64::MAX));
            d.extend_from_slice(&e.payload);
            c.data = d;
            c.api = ["lzma", "stream"][rng.gen_range(0..2)].to_string();
            c.family = "long-output".into();
        }
    }
    if c.api == "lzma" || c.api == "stream" {
        if rng.gen_bool(0.5) {
            c.opt = rand_opt(&mut rng);
        }
        if rng.gen_bool(0.2) {
            c.memlimit = [Some(0usize), Some(1), Some(4096), Some(usize::MAX)][rng.gen_range(0..4)];
        }
    }
    if c.api == "stream" {
        let n = c.data.len();
        let k = rng.gen_range(0..6);
        c.cuts = (0..k).map(|_| rng.gen_range(0..=n)).collect();
        c.cuts.sort();
    }
    c
}

pub struct Res {
    pub verdict: Verdict,
    pub msg: String,
    pub produced: usize,
    pub consumed: usize,
    pub peak: usize,
}

pub fn run_case(c: &Case) -> Res {
    let base = alloc::begin();
    let (verdict, msg, produced, consumed) = match c.api.as_str() {
        "lzma" => {
            let (o, cons) = api::lzma_bytes_consumed(&c.data, &api::options(c.opt, c.memlimit, false));
            (o.verdict, o.msg, o.out.len(), cons)
        }
        "lzma2" => {
            let (o, cons) = api::lzma2_bytes(&c.data);
            (o.verdict, o.msg, o.out.len(), cons)
        }
        "raw-lzma2" => {
            let (o, cons) = api::raw_lzma2(&c.data);
            (o.verdict, o.msg, o.out.len(), cons)
        }
        "xz" => {
            let o = api::xz_bytes(&c.data);
            (o.verdict, o.msg, o.out.len(), c.data.len())
        }
        "raw-lzma" => {
            let (lc, lp, pb, dict, size) = c.raw.unwrap_or((3, 0, 2, 4096, None));
            let (o, cons) = api::raw_lzma(&c.data, lc, lp, pb, dict, size, c.memlimit);
            (o.verdict, o.msg, o.out.len(), cons)
        }
        "stream" => {
            let r = api::stream_run(&c.data, &c.cuts, &api::options(c.opt, c.memlimit, false));
            (r.verdict, r.msg, r.out.len(), r.offered_total.min(c.data.len()))
        }
        a => panic!("api {}", a),
    };
    let peak = alloc::peak_above(base);
    Res { verdict, msg, produced, consumed, peak }
}

pub fn case_json(c: &Case, seed: u64, idx: u64) -> Value {
    json!({"kind": "total", "seed": seed, "index": idx, "api": c.api, "family": c.family, "data_hex": hex(&c.data[..c.data.len().min(6000)]), "data_len": c.data.len(),
           "opt": c.opt, "memlimit": c.memlimit, "raw": c.raw.map(|r| json!({"lc": r.0, "lp": r.1, "pb": r.2, "dict": r.3, "size": r.4})), "cuts": c.cuts})
}

pub const A0: usize = 9_000_000;
pub const K: usize = 8;

pub fn run(prop: &str, seed: u64, from: u64, count: u64, trace_path: Option<&str>, journal: Option<&str>, rep: &mut Report) {
    // journal: the index of the case being decoded, rewritten before every case - if the code under test takes
    // the whole process down (allocation failure aborts, stack overflow), the orchestrator still knows which case it was
    let jfile = journal.and_then(|p| std::fs::OpenOptions::new().create(true).write(true).truncate(true).open(p).ok());
    let progress = Arc::new(AtomicU64::new(from));
    let started = Arc::new(AtomicU64::new(now_ms()));
    let done = Arc::new(AtomicUsize::new(0));
    let results: Arc<Mutex<Vec<(u64, String, usize, String, usize, usize, usize, String)>>> = Arc::new(Mutex::new(Vec::with_capacity(count as usize)));
    let (p2, s2, d2, r2) = (progress.clone(), started.clone(), done.clone(), results.clone());
    let worker = std::thread::Builder::new().stack_size(64 << 20).spawn(move || {
        for idx in from..from + count {
            let c = gen_case(seed, idx);
            if let Some(f) = &jfile {
                use std::os::unix::fs::FileExt;
                let _ = f.write_at(&idx.to_le_bytes(), 0);
            }
            p2.store(idx, Ordering::SeqCst);
            s2.store(now_ms(), Ordering::SeqCst);
            let r = run_case(&c);
            let v = match r.verdict {
                Verdict::Ok => "ok",
                Verdict::Err => "err",
                Verdict::Panic => "panic",
            };
            r2.lock().unwrap().push((idx, c.api.clone(), c.data.len(), v.to_string(), r.consumed, r.produced, r.peak, if r.verdict == Verdict::Panic { r.msg } else { c.family.clone() }));
        }
        d2.store(1, Ordering::SeqCst);
    }).expect("spawn");
    // watchdog
    let mut hang: Option<u64> = None;
    loop {
        std::thread::sleep(std::time::Duration::from_millis(50));
        if done.load(Ordering::SeqCst) == 1 {
            break;
        }
        if now_ms().saturating_sub(started.load(Ordering::SeqCst)) > 30_000 {
            hang = Some(progress.load(Ordering::SeqCst));
            break;
        }
    }
    if hang.is_none() {
        let _ = worker.join();
    }
    let mut trace: Vec<String> = vec![];
    let res = results.lock().unwrap();
    for (idx, apiname, n, v, cons, prod, peak, extra) in res.iter() {
        rep.eval(hash_of(&(seed, *idx)), *n > 0);
        rep.count(&format!("outcome:{}", v));
        if v == "panic" {
            let c = gen_case(seed, *idx);
            rep.violation(prop, format!("{} panicked on a {}-byte input ({}): {}", apiname, n, c.family, extra), case_json(&c, seed, *idx));
        } else {
            let c0 = gen_case(seed, *idx);
            // a constructor that accepts lc / lp beyond the format's ranges needs 0x300 << (lc + lp) probabilities by
            // construction: the fixed allowance A0 is sized for the format's largest table, so only panic / hang are
            // judged for such parameters
            let wide = matches!(c0.raw, Some((lc, lp, _, _, _)) if lc > 8 || lp > 4);
            if !wide && *peak > A0 + K * (*n + *prod) {
                let c = gen_case(seed, *idx);
                rep.violation(prop, format!("{} allocated {} bytes at peak for {} input bytes and {} output bytes ({})", apiname, peak, n, prod, c.family), case_json(&c, seed, *idx));
            }
            trace.push(json!({"api": apiname, "n": n, "o": v, "c": (*cons).min(*n), "p": prod, "peak": (*peak).min(1 << 30)}).to_string());
        }
        if rep.samples.len() < 6 && idx % 10 == (rep.samples.len() as u64 + 2) % 10 {
            rep.sample(json!({"index": idx, "api": apiname, "family": extra, "input_bytes": n, "outcome": v, "produced": prod, "peak_heap": peak}));
        }
    }
    if let Some(idx) = hang {
        let c = gen_case(seed, idx);
        rep.violation(prop, format!("{} did not return within 30 s on a {}-byte input ({})", c.api, c.data.len(), c.family), case_json(&c, seed, idx));
    }
    rep.add("trace_events", trace.len() as u64);
    if let Some(p) = trace_path {
        std::fs::write(p, trace.join("\n") + "\n").expect("write trace");
        rep.traces.push(p.to_string());
    }
    if hang.is_some() {
        // the worker thread is stuck inside lzma-rs: write the report now and leave
        let j = rep.to_json();
        if let Some(o) = std::env::args().skip_while(|a| a != "--out").nth(1) {
            let _ = std::fs::write(o, serde_json::to_string_pretty(&j).unwrap());
        }
        std::process::exit(0);
    }
}

fn now_ms() -> u64 {
    std::time::SystemTime::now().duration_since(std::time::UNIX_EPOCH).unwrap().as_millis() as u64
}

pub fn replay_value(v: &Value, prop: &str, rep: &mut Report) {
    let seed = v["seed"].as_u64().unwrap_or(1);
    let idx = v["index"].as_u64().unwrap_or(0);
    run(prop, seed, idx, 1, None, None, rep);
    let _ = unhex("");
}

//! Driver for C14: a reset raw decoder is indistinguishable from a new one.

use crate::api::Verdict;
use crate::build::{lzma2_chunk_header, lzma2_stream, Chunk, L2State};
use crate::coding::{self, Props, Sym};
use crate::d_lzma::{random_walk, WalkCfg};
use crate::io::{catch, Caught};
use crate::report::{hash_of, hex, Report};
use lzma_rs::decompress::raw::{Lzma2Decoder, LzmaDecoder, LzmaParams, LzmaProperties};
use rand::rngs::StdRng;
use rand::{Rng, SeedableRng};
use serde_json::{json, Value};

#[derive(Clone, Debug)]
enum Op {
    Dec(usize),                 // index into the stream pool
    Reset(Option<Option<u64>>), // LzmaDecoder::reset argument (Lzma2: always plain reset)
}

fn dec1(d: &mut LzmaDecoder, data: &[u8]) -> (Verdict, Vec<u8>, String) {
    let mut out = vec![];
    let mut rd = data;
    match catch(|| d.decompress(&mut rd, &mut out)) {
        Caught::Done(Ok(())) => (Verdict::Ok, out, String::new()),
        Caught::Done(Err(e)) => (Verdict::Err, out, format!("{:?}", e)),
        Caught::Panic(m) => (Verdict::Panic, out, m),
    }
}
fn dec2(d: &mut Lzma2Decoder, data: &[u8]) -> (Verdict, Vec<u8>, String) {
    let mut out = vec![];
    let mut rd = data;
    match catch(|| d.decompress(&mut rd, &mut out)) {
        Caught::Done(Ok(())) => (Verdict::Ok, out, String::new()),
        Caught::Done(Err(e)) => (Verdict::Err, out, format!("{:?}", e)),
        Caught::Panic(m) => (Verdict::Panic, out, m),
    }
}

#[cfg(lzma_rs_verif)]
fn proj_json(p: &[u64]) -> Value {
    let size: i64 = if p[15] == u64::MAX { -2 } else { p[15].min(1 << 30) as i64 };
    json!({
        "dirty": {"lit": p[0], "posslot": p[1], "align": p[2], "spec": p[3], "ismatch": p[4], "isrep": p[5], "rep0long": p[6], "len": p[7], "replen": p[8]},
        "st": p[9], "repz": p[10] == 0 && p[11] == 0 && p[12] == 0 && p[13] == 0,
        "rows": p[14], "size": size, "pl": p[16], "props": p[17] * 100 + p[18] * 10 + p[19]
    })
}
#[cfg(lzma_rs_verif)]
fn proj1(d: &LzmaDecoder) -> Option<Value> {
    Some(proj_json(&d.verif_projection()))
}
#[cfg(lzma_rs_verif)]
fn proj2(d: &Lzma2Decoder) -> Option<Value> {
    Some(proj_json(&d.verif_projection()))
}
#[cfg(not(lzma_rs_verif))]
fn proj1(_d: &LzmaDecoder) -> Option<Value> {
    None
}
#[cfg(not(lzma_rs_verif))]
fn proj2(_d: &Lzma2Decoder) -> Option<Value> {
    None
}

fn enc_size(s: Option<u64>) -> i64 {
    match s {
        None => -2,
        Some(n) => n as i64,
    }
}

fn ev(name: &str, extra: Value, p: Option<Value>) -> Option<String> {
    let mut o = p?;
    o["ev"] = json!(name);
    if let Value::Object(m) = extra {
        for (k, v) in m {
            o[k] = v;
        }
    }
    Some(o.to_string())
}

/// Pool of raw LZMA payloads for a decoder constructed with `p`: valid ones that lean on every
/// piece of carried state early (rep distances, length trees, literal contexts), corrupt and truncated ones.
fn lzma_pool(rng: &mut StdRng, p: Props) -> Vec<(Vec<u8>, Option<u64>, String)> {
    let mut v = vec![];
    // streams that leave only PART of the state used (RawReuse.tla lets Decompress leave any subset):
    // literal-only without marker: tables dirty, but state = 0 and rep = 0 as in a new decoder
    for n in [40usize, 900] {
        let prog: Vec<Sym> = (0..n).map(|_| Sym::Lit { b: rng.gen_range(0..4) * 70 }).collect();
        let e = coding::encode_program(&prog, p);
        v.push((e.payload.clone(), Some(n as u64), format!("literal-only-sized{}", n)));
        v.push((e.payload[..e.payload.len() * 2 / 3].to_vec(), Some(n as u64), format!("literal-only-truncated{}", n)));
    }
    // streams a NEW decoder must reject because a copy reaches before the start of the output; the
    // continuation is coded as if zeros had been there, so an object that still holds an old window accepts it
    for (k, bad) in [Sym::Match { d: 2, n: 4 }, Sym::Short, Sym::Match { d: 3000, n: 9 }].iter().enumerate() {
        let mut cs = coding::CS::default();
        let mut probs = coding::Probs::default();
        let mut enc = crate::kernel::RangeEnc::new();
        let first = Sym::Lit { b: b'X' };
        let mut seq: Vec<Sym> = if k == 1 { vec![] } else { vec![first] };
        for s0 in seq.drain(..) {
            let d = cs.decisions(&s0, p);
            coding::encode_decs(&mut enc, &mut probs, &d);
            cs.apply(&s0);
        }
        let d = coding::invalid_decisions(&cs, bad, p);
        coding::encode_decs(&mut enc, &mut probs, &d);
        let (n, nst): (usize, usize) = match bad {
            Sym::Match { d: dd, n } => {
                cs.rep = [dd - 1, cs.rep[0], cs.rep[1], cs.rep[2]];
                (*n as usize, coding::match_next(cs.st))
            }
            _ => (1, coding::short_next(cs.st)),
        };
        for _ in 0..n {
            cs.out.push(0);
        }
        cs.st = nst;
        for b in [b'a', b'b'] {
            let s1 = Sym::Lit { b };
            if cs.valid(&s1) {
                let d = cs.decisions(&s1, p);
                coding::encode_decs(&mut enc, &mut probs, &d);
                cs.apply(&s1);
            }
        }
        let total = cs.out.len() as u64;
        v.push((enc.finish(), Some(total), format!("copy-before-start{}", k)));
    }
    // a long valid stream that fills more than one lap of a 4096-byte window
    {
        let prog = random_walk(rng, &WalkCfg { nsyms: 700, props: p, max_dist: 4096, lit_alphabet: 6 });
        let e = coding::encode_program(&prog, p);
        v.push((e.payload.clone(), Some(e.out.len() as u64), "valid-long-sized".into()));
    }
    // literals + short reps / rep0 only: rep distances stay zero, state and length tables do not
    {
        let mut prog = vec![Sym::Lit { b: 5 }];
        for i in 0..120u32 {
            prog.push(if i % 3 == 0 { Sym::Short } else if i % 3 == 1 { Sym::Rep { r: 0, n: 2 + i % 20 } } else { Sym::Lit { b: (i % 7) as u8 } });
        }
        let e = coding::encode_program(&prog, p);
        v.push((e.payload.clone(), Some(e.out.len() as u64), "rep0-only-sized".into()));
    }
    for i in 0..4 {
        let mut prog = vec![Sym::Lit { b: 7 }, Sym::Rep { r: (i % 3 + 1) as u8, n: 2 + i as u32 * 9 }, Sym::Short];
        prog.extend(random_walk(rng, &WalkCfg { nsyms: 30 + i * 60, props: p, max_dist: 4096, lit_alphabet: 6 }).into_iter().skip(1));
        // the walk was generated from an empty history; prepend-safe only if still valid: re-validate
        let mut cs = coding::CS::default();
        let mut ok = vec![];
        for s in prog {
            if cs.valid(&s) {
                cs.apply(&s);
                ok.push(s);
            }
        }
        let e0 = coding::encode_program(&ok, p);
        let n = e0.out.len() as u64;
        // sized variant
        v.push((e0.payload.clone(), Some(n), format!("valid-sized{}", i)));
        let mut pm = ok.clone();
        pm.push(Sym::Eos);
        let em = coding::encode_program(&pm, p);
        v.push((em.payload.clone(), None, format!("valid-marker{}", i)));
        let mut c = em.payload.clone();
        let k = rng.gen_range(5..c.len());
        c[k] ^= 0x10;
        v.push((c, None, format!("corrupt{}", i)));
        let t = em.payload[..em.payload.len() / 2].to_vec();
        v.push((t, None, format!("truncated{}", i)));
    }
    v
}

fn lzma2_pool(rng: &mut StdRng) -> Vec<(Vec<u8>, String)> {
    let mut v = vec![];
    let pa = Props { lc: 3, lp: 0, pb: 2 };
    let pb = Props { lc: 0, lp: 2, pb: 0 };
    let pc = Props { lc: 1, lp: 2, pb: 4 }; // same lc+lp as pa: table refilled, not reallocated
    let walk = |rng: &mut StdRng, p: Props, n: usize| random_walk(rng, &WalkCfg { nsyms: n, props: p, max_dist: 4096, lit_alphabet: 6 });
    // valid, single property set
    let (s, _, _) = lzma2_stream(&[Chunk::Lzma { class: 3, props: Some(pa), prog: walk(rng, pa, 120) }]);
    v.push((s, "valid-a".into()));
    // valid streams whose FIRST properties have lp > 0 (literal rows selected by position): a table kept from an
    // earlier, larger-context stream must not leak into them
    for (pp, nm) in [(pb, "valid-lp2"), (pc, "valid-lc1lp2"), (Props { lc: 0, lp: 4, pb: 0 }, "valid-lp4")] {
        let (s, _, _) = lzma2_stream(&[Chunk::Lzma { class: 3, props: Some(pp), prog: walk(rng, pp, 200) }]);
        v.push((s, nm.into()));
    }
    // valid, property change with different and with equal lc+lp, ends under pb / pc
    let (s, _, _) = lzma2_stream(&[
        Chunk::Lzma { class: 3, props: Some(pa), prog: walk(rng, pa, 60) },
        Chunk::Lzma { class: 2, props: Some(pb), prog: vec![Sym::Lit { b: 1 }, Sym::Match { d: 1, n: 30 }, Sym::Rep { r: 1, n: 4 }] },
    ]);
    v.push((s, "props-change-realloc".into()));
    let (s, _, _) = lzma2_stream(&[
        Chunk::Lzma { class: 3, props: Some(pa), prog: walk(rng, pa, 60) },
        Chunk::Lzma { class: 2, props: Some(pc), prog: vec![Sym::Lit { b: 1 }, Sym::Match { d: 1, n: 30 }] },
    ]);
    v.push((s, "props-change-refill".into()));
    // streams that LEAN on the decoder's initial state (format-lenient, accepted by lzma-rs): first
    // LZMA chunk without properties (class 1: state reset only; class 0: nothing reset)
    for class in [1u8, 0u8] {
        let mut st = L2State::default();
        let raw = st.push(&Chunk::Raw { reset: true, data: vec![1, 2, 3, 4, 5, 6, 7, 8] });
        let mut s = raw.bytes;
        // encoder believes props 0/0/0 and pristine state, which is what a NEW decoder has
        st.props = Some(Props { lc: 0, lp: 0, pb: 0 });
        let prog = vec![Sym::Lit { b: 200 }, Sym::Rep { r: 2, n: 5 }, Sym::Short, Sym::Match { d: 3, n: 20 }, Sym::Lit { b: 3 }, Sym::Rep { r: 0, n: 18 }];
        let ch = st.push(&Chunk::Lzma { class, props: None, prog });
        s.extend_from_slice(&ch.bytes);
        s.push(0);
        v.push((s, format!("lenient-class{}-first", class)));
    }
    // malformed framing must stay rejected however often the same object sees it
    {
        // class 3, lc = 4, lp = 1 (lc + lp > 4) with a well-formed payload under those properties
        let (s, _, _) = lzma2_stream(&[Chunk::Lzma { class: 3, props: Some(Props { lc: 4, lp: 1, pb: 0 }), prog: vec![Sym::Lit { b: 1 }, Sym::Lit { b: 2 }, Sym::Match { d: 2, n: 6 }] }]);
        v.push((s, "bad-props-lclp".into()));
        let mut s = vec![0xE0u8, 0, 9, 0, 20, 225];
        s.extend_from_slice(&[0u8; 21]);
        s.push(0);
        v.push((s, "bad-props-225".into()));
    }
    // literal-only LZMA chunk: leaves state 0 / rep 0 with used tables
    {
        let prog: Vec<Sym> = (0..300).map(|i| Sym::Lit { b: (i % 5) as u8 * 50 }).collect();
        let (s, _, _) = lzma2_stream(&[Chunk::Lzma { class: 3, props: Some(pa), prog }]);
        v.push((s, "literal-only".into()));
    }
    // corrupt / truncated
    let (s, _, _) = lzma2_stream(&[Chunk::Lzma { class: 3, props: Some(pb), prog: walk(rng, pb, 150) }]);
    let mut c = s.clone();
    let k = c.len() / 2;
    c[k] ^= 0x21;
    v.push((c, "corrupt".into()));
    v.push((s[..s.len() * 2 / 3].to_vec(), "truncated".into()));
    let _ = lzma2_chunk_header;
    v
}

pub fn run(prop: &str, seed: u64, nhist: usize, trace_path: Option<&str>, rep: &mut Report) {
    let mut rng = StdRng::seed_from_u64(seed ^ 0xc14);
    let mut trace: Vec<String> = vec![];
    // ---------------- LzmaDecoder ----------------
    for h in 0..nhist {
        let p = [Props { lc: 3, lp: 0, pb: 2 }, Props { lc: 0, lp: 4, pb: 4 }, Props { lc: 8, lp: 0, pb: 0 }, Props { lc: 2, lp: 2, pb: 1 }][h % 4];
        let pool = lzma_pool(&mut rng, p);
        let csize = if h % 3 == 0 { pool[0].1 } else { None };
        // some histories run under a memory limit (a reused decoder must enforce it like a new one)
        let memlimit: Option<usize> = [None, None, Some(64usize), Some(5000), Some(300)][h % 5];
        let mk = |size: Option<u64>| LzmaDecoder::new(LzmaParams::new(LzmaProperties { lc: p.lc, lp: p.lp, pb: p.pb }, 4096, size), memlimit).unwrap();
        let traced = h % 5 != 4;
        let mut d = mk(csize);
        let mut size_eff = csize;
        if let Some(e) = ev("new", json!({"kind": "lzma", "cprops": p.lc * 100 + p.lp * 10 + p.pb, "csize": enc_size(csize)}), proj1(&d)) {
            if traced {
                trace.push(e);
            }
        }
        let nops = rng.gen_range(2..8);
        let mut just_reset = false;
        let mut last_idx = 0usize;
        let mut desc: Vec<String> = vec![];
        for _ in 0..nops {
            let op = if !just_reset && rng.gen_bool(0.45) {
                match rng.gen_range(0..3) {
                    0 => Op::Reset(None),
                    1 => Op::Reset(Some(None)),
                    // the all-ones size is an ordinary (unreachable) size for the raw decoder, not "unknown";
                    // the projection hook cannot tell it from None, so these histories are not traced
                    _ if !traced && rng.gen_bool(0.5) => Op::Reset(Some(Some(u64::MAX))),
                    _ => Op::Reset(Some(Some(pool[rng.gen_range(0..pool.len())].1.unwrap_or(17)))),
                }
            } else {
                Op::Dec(rng.gen_range(0..pool.len()))
            };
            match op {
                Op::Reset(arg) => {
                    d.reset(arg);
                    if let Some(s) = arg {
                        size_eff = s;
                    }
                    just_reset = true;
                    desc.push(format!("reset({:?})", arg));
                    let ns: i64 = match arg {
                        None => -1,
                        Some(s) => enc_size(s),
                    };
                    if let Some(e) = ev("reset", json!({"newsize": ns}), proj1(&d)) {
                        if traced {
                trace.push(e);
            }
                    }
                }
                Op::Dec(i) => {
                    let i = if just_reset && rng.gen_bool(0.4) { last_idx } else { i };
                    last_idx = i;
                    let (data, _, name) = &pool[i];
                    let r = dec1(&mut d, data);
                    desc.push(format!("decompress({})", name));
                    if let Some(e) = ev("decompress", json!({}), proj1(&d)) {
                        if traced {
                trace.push(e);
            }
                    }
                    let mut vs = vec![];
                    if r.0 == Verdict::Panic {
                        // right after reset a panic is an outcome a new decoder does not have (C14); on a used object
                        // that was NOT reset no listed property promises anything
                        if just_reset {
                            vs.push(format!("panic: {}", r.2));
                        } else {
                            rep.drift(format!("panic of decompress() on a used LzmaDecoder that was not reset: {}", r.2), json!({"history": h}));
                        }
                    }
                    if just_reset {
                        let mut f = mk(size_eff);
                        let rf = dec1(&mut f, data);
                        if rf.0 != Verdict::Panic && r.0 != Verdict::Panic {
                            if (r.0 == Verdict::Ok) != (rf.0 == Verdict::Ok) {
                                vs.push(format!("after reset: verdict {:?} ({}), a new decoder gives {:?} ({})", r.0, r.2, rf.0, rf.2));
                            } else if r.0 == Verdict::Ok && r.1 != rf.1 {
                                vs.push("after reset: output differs from a new decoder's".into());
                            }
                        }
                        rep.eval(hash_of(&(h, desc.clone())), true);
                    }
                    just_reset = false;
                    if !vs.is_empty() {
                        rep.violation(prop, format!("LzmaDecoder history [{}]: {}", desc.join(", "), vs.join("; ")), json!({"kind": "reuse", "decoder": "lzma", "seed": seed, "history": h, "ops": desc}));
                    }
                }
            }
        }
        if rep.samples.len() < 3 {
            rep.sample(json!({"decoder": "LzmaDecoder", "props": p, "ops": desc}));
        }
    }
    // ---------------- LzmaDecoder: every way of re-declaring the size, on every pool stream ----------------
    // reset(Some(s)) must leave the object exactly like LzmaDecoder::new(.., s): also for sizes that look special
    // elsewhere (the all-ones value is "unknown" only in a .lzma header; 0; values beyond 2^32)
    for h in 0..nhist.min(8) {
        let p = [Props { lc: 3, lp: 0, pb: 2 }, Props { lc: 0, lp: 4, pb: 4 }][h % 2];
        let pool = lzma_pool(&mut rng, p);
        let mk = |size: Option<u64>| LzmaDecoder::new(LzmaParams::new(LzmaProperties { lc: p.lc, lp: p.lp, pb: p.pb }, 4096, size), None).unwrap();
        for (pi, (data, psize, name)) in pool.iter().enumerate() {
            let l = psize.unwrap_or(17);
            for (si, s) in [None, Some(u64::MAX), Some(u64::MAX - 1), Some(0), Some(l), Some(l + 1), Some((1u64 << 32) + l), Some(1 << 63)].iter().enumerate() {
                let mut d = mk(if (pi + si) % 2 == 0 { None } else { Some(l) });
                if (pi + si + h) % 3 == 0 {
                    let _ = dec1(&mut d, &pool[(pi + 1) % pool.len()].0);
                }
                d.reset(Some(*s));
                let r = dec1(&mut d, data);
                let mut f = mk(*s);
                let rf = dec1(&mut f, data);
                rep.eval(hash_of(&(h, pi, si, "size-sweep")), true);
                let mut vs = vec![];
                if r.0 == Verdict::Panic {
                    vs.push(format!("panic: {}", r.2));
                } else if rf.0 != Verdict::Panic {
                    if (r.0 == Verdict::Ok) != (rf.0 == Verdict::Ok) {
                        vs.push(format!("verdict {:?} ({}), a new decoder with that size gives {:?} ({})", r.0, r.2, rf.0, rf.2));
                    } else if r.0 == Verdict::Ok && r.1 != rf.1 {
                        vs.push("output differs from a new decoder's".into());
                    }
                }
                if !vs.is_empty() {
                    rep.violation(prop, format!("LzmaDecoder reset(Some({:?})) then decompress({}): {}", s, name, vs.join("; ")), json!({"kind": "reuse", "decoder": "lzma", "seed": seed, "history": h, "ops": [format!("reset(Some({:?}))", s), name]}));
                }
            }
        }
    }
    // ---------------- "decodes that failed half-way": EVERY truncation point of a small stream, then reset, then the stream ----------------
    // (input ending inside a symbol leaves the tables of exactly that symbol adapted - whatever bookkeeping reset()
    // relies on to know what is dirty must have seen it)
    for (pi, p) in [Props { lc: 3, lp: 0, pb: 2 }, Props { lc: 0, lp: 0, pb: 0 }, Props { lc: 4, lp: 0, pb: 0 }, Props { lc: 0, lp: 2, pb: 1 }].iter().enumerate() {
        let mut prog: Vec<Sym> = (0..14u32).map(|k| Sym::Lit { b: (k * 37 + 11) as u8 }).collect();
        prog.push(Sym::Match { d: 3, n: 5 });
        prog.push(Sym::Lit { b: 0xF0 });
        prog.push(Sym::Rep { r: 0, n: 3 });
        prog.push(Sym::Short);
        prog.push(Sym::Lit { b: 0x0F });
        let e = coding::encode_program(&prog, *p);
        let n = e.out.len() as u64;
        // raw LZMA decoder
        let mk = || LzmaDecoder::new(LzmaParams::new(LzmaProperties { lc: p.lc, lp: p.lp, pb: p.pb }, 4096, Some(n)), None).unwrap();
        let fresh = dec1(&mut mk(), &e.payload);
        for cut in 0..e.payload.len() {
            let mut d = mk();
            // (recorded like the random histories: after reset the projected state must be the one of a new object -
            // Trace_RawReuse)
            let mut evs: Vec<Option<String>> = vec![ev("new", json!({"kind": "lzma", "cprops": p.lc * 100 + p.lp * 10 + p.pb, "csize": enc_size(Some(n))}), proj1(&d))];
            let _ = dec1(&mut d, &e.payload[..cut]);
            evs.push(ev("decompress", json!({}), proj1(&d)));
            d.reset(None);
            evs.push(ev("reset", json!({"newsize": -1}), proj1(&d)));
            let r = dec1(&mut d, &e.payload);
            evs.push(ev("decompress", json!({}), proj1(&d)));
            if evs.iter().all(|x| x.is_some()) && r.0 != Verdict::Panic {
                trace.extend(evs.into_iter().flatten());
            }
            rep.eval(hash_of(&(pi, cut, "trunc-then-reset")), true);
            if (r.0 == Verdict::Panic && fresh.0 != Verdict::Panic) || (r.0 != Verdict::Panic && fresh.0 != Verdict::Panic && ((r.0 == Verdict::Ok) != (fresh.0 == Verdict::Ok) || (r.0 == Verdict::Ok && r.1 != fresh.1))) {
                rep.violation(prop, format!("LzmaDecoder [decompress(first {} of {} bytes), reset(None), decompress(whole stream)]: {:?} {}, a new decoder gives {:?}", cut, e.payload.len(), r.0, r.2, fresh.0),
                    json!({"kind": "reuse", "decoder": "lzma", "seed": seed, "history": 0, "ops": [format!("truncated@{}", cut), "reset(None)", "whole"]}));
            }
        }
        // LZMA2 decoder (properties the chunk header can carry)
        if p.lc + p.lp <= 4 {
            let (s2, _, _) = lzma2_stream(&[Chunk::Lzma { class: 3, props: Some(*p), prog: prog.clone() }]);
            let fresh = dec2(&mut Lzma2Decoder::new(), &s2);
            for cut in 0..s2.len() {
                let mut d = Lzma2Decoder::new();
                let mut evs: Vec<Option<String>> = vec![ev("new", json!({"kind": "lzma2", "cprops": 0, "csize": -2}), proj2(&d))];
                let _ = dec2(&mut d, &s2[..cut]);
                evs.push(ev("decompress", json!({}), proj2(&d)));
                d.reset();
                evs.push(ev("reset", json!({"newsize": -1}), proj2(&d)));
                let r = dec2(&mut d, &s2);
                evs.push(ev("decompress", json!({}), proj2(&d)));
                if evs.iter().all(|x| x.is_some()) && r.0 != Verdict::Panic {
                    trace.extend(evs.into_iter().flatten());
                }
                rep.eval(hash_of(&(pi, cut, "l2-trunc-then-reset")), true);
                if (r.0 == Verdict::Panic && fresh.0 != Verdict::Panic) || (r.0 != Verdict::Panic && fresh.0 != Verdict::Panic && ((r.0 == Verdict::Ok) != (fresh.0 == Verdict::Ok) || (r.0 == Verdict::Ok && r.1 != fresh.1))) {
                    rep.violation(prop, format!("Lzma2Decoder [decompress(first {} of {} bytes), reset(), decompress(whole stream)]: {:?} {}, a new decoder gives {:?}", cut, s2.len(), r.0, r.2, fresh.0),
                        json!({"kind": "reuse", "decoder": "lzma2", "seed": seed, "history": 0, "ops": [format!("truncated@{}", cut), "reset()", "whole"]}));
                }
            }
        }
    }
    // ---------------- "any number of reuse cycles": several hundred cycles on one object ----------------
    // stream A trains literal contexts that stream B never touches; A comes back after 1, 2, 254..258 and 510..514
    // cycles of B (a generation counter of any small width has wrapped by then)
    for (pi, p) in [Props { lc: 3, lp: 2, pb: 0 }, Props { lc: 8, lp: 0, pb: 2 }, Props { lc: 3, lp: 0, pb: 2 }].iter().enumerate() {
        let pa: Vec<Sym> = (0..40u32).map(|k| Sym::Lit { b: 0xE0 | (k * 5 % 32) as u8 }).collect();
        let pb_: Vec<Sym> = (0..6u32).map(|k| Sym::Lit { b: (k % 3) as u8 }).collect();
        let ea = coding::encode_program(&pa, *p);
        let eb = coding::encode_program(&pb_, *p);
        let mk = |n: u64| LzmaDecoder::new(LzmaParams::new(LzmaProperties { lc: p.lc, lp: p.lp, pb: p.pb }, 4096, Some(n)), None).unwrap();
        let fa = dec1(&mut mk(ea.out.len() as u64), &ea.payload);
        let mut d = mk(ea.out.len() as u64);
        let _ = dec1(&mut d, &ea.payload);
        let mut cycle = 0usize;
        'gaps: for gap in [1usize, 2, 3, 254, 255, 256, 257, 258, 511, 512, 513] {
            for _ in 1..gap {
                d.reset(Some(Some(eb.out.len() as u64)));
                let _ = dec1(&mut d, &eb.payload);
                cycle += 1;
            }
            d.reset(Some(Some(ea.out.len() as u64)));
            let r = dec1(&mut d, &ea.payload);
            cycle += 1;
            rep.eval(hash_of(&(pi, cycle, "many-cycles")), true);
            if (r.0 == Verdict::Panic && fa.0 != Verdict::Panic) || (r.0 != Verdict::Panic && fa.0 != Verdict::Panic && ((r.0 == Verdict::Ok) != (fa.0 == Verdict::Ok) || (r.0 == Verdict::Ok && r.1 != fa.1))) {
                rep.violation(prop, format!("LzmaDecoder after {} reuse cycles (stream A again after {} cycles of stream B): {:?} {}, a new decoder gives {:?}", cycle, gap - 1, r.0, r.2, fa.0),
                    json!({"kind": "reuse", "decoder": "lzma", "seed": seed, "history": 0, "ops": [format!("cycle {}", cycle)]}));
                break 'gaps;
            }
        }
    }
    // ---------------- Lzma2Decoder: first use (any pool stream: valid, failing half-way, ...) -> reset -> probe ----------------
    // the probes lean on the decoder's initial state (no new properties / no state reset in their first chunk), so
    // anything a reset leaves behind shows
    for h in 0..nhist.min(4) {
        let pool = lzma2_pool(&mut rng);
        let probes: Vec<usize> = pool.iter().enumerate().filter(|(_, (_, n))| n.starts_with("lenient-")).map(|(i, _)| i).collect();
        for (pi, (first, fname)) in pool.iter().enumerate() {
            for &qi in &probes {
                let mut d = Lzma2Decoder::new();
                let _ = dec2(&mut d, first);
                if (pi + h) % 3 == 0 {
                    let _ = dec2(&mut d, &pool[(pi + 1) % pool.len()].0);
                }
                d.reset();
                let r = dec2(&mut d, &pool[qi].0);
                let mut f = Lzma2Decoder::new();
                let rf = dec2(&mut f, &pool[qi].0);
                rep.eval(hash_of(&(h, pi, qi, "l2-first-use")), true);
                let mut vs = vec![];
                if r.0 == Verdict::Panic {
                    vs.push(format!("panic: {}", r.2));
                } else if rf.0 != Verdict::Panic {
                    if (r.0 == Verdict::Ok) != (rf.0 == Verdict::Ok) {
                        vs.push(format!("verdict {:?} ({}), a new decoder gives {:?} ({})", r.0, r.2, rf.0, rf.2));
                    } else if r.0 == Verdict::Ok && r.1 != rf.1 {
                        vs.push("output differs from a new decoder's".into());
                    }
                }
                if !vs.is_empty() {
                    rep.violation(prop, format!("Lzma2Decoder [decompress({}), reset(), decompress({})]: {}", fname, pool[qi].1, vs.join("; ")), json!({"kind": "reuse", "decoder": "lzma2", "seed": seed, "history": h, "ops": [fname, "reset()", pool[qi].1]}));
                }
            }
        }
    }
    // ---------------- Lzma2Decoder ----------------
    for h in 0..nhist {
        let pool = lzma2_pool(&mut rng);
        let mut d = Lzma2Decoder::new();
        if let Some(e) = ev("new", json!({"kind": "lzma2", "cprops": 0, "csize": -2}), proj2(&d)) {
            trace.push(e);
        }
        let nops = rng.gen_range(2..9);
        let mut just_reset = false;
        let mut last2 = 0usize;
        let mut desc: Vec<String> = vec![];
        for _ in 0..nops {
            if !just_reset && rng.gen_bool(0.45) {
                d.reset();
                just_reset = true;
                desc.push("reset()".into());
                if let Some(e) = ev("reset", json!({"newsize": -1}), proj2(&d)) {
                    trace.push(e);
                }
            } else {
                let pick = if just_reset && rng.gen_bool(0.4) { last2 } else { rng.gen_range(0..pool.len()) };
                last2 = pick;
                let (data, name) = &pool[pick];
                let r = dec2(&mut d, data);
                desc.push(format!("decompress({})", name));
                if let Some(e) = ev("decompress", json!({}), proj2(&d)) {
                    trace.push(e);
                }
                let mut vs = vec![];
                if r.0 == Verdict::Panic {
                    if just_reset {
                        vs.push(format!("panic: {}", r.2));
                    } else {
                        rep.drift(format!("panic of decompress() on a used Lzma2Decoder that was not reset: {}", r.2), json!({"history": h}));
                    }
                }
                if just_reset {
                    let mut f = Lzma2Decoder::new();
                    let rf = dec2(&mut f, data);
                    if rf.0 != Verdict::Panic && r.0 != Verdict::Panic {
                        if (r.0 == Verdict::Ok) != (rf.0 == Verdict::Ok) {
                            vs.push(format!("after reset: verdict {:?} ({}), a new decoder gives {:?} ({})", r.0, r.2, rf.0, rf.2));
                        } else if r.0 == Verdict::Ok && r.1 != rf.1 {
                            vs.push("after reset: output differs from a new decoder's".into());
                        }
                    }
                    rep.eval(hash_of(&(h, desc.clone(), 2)), true);
                }
                just_reset = false;
                if !vs.is_empty() {
                    rep.violation(prop, format!("Lzma2Decoder history [{}]: {}", desc.join(", "), vs.join("; ")), json!({"kind": "reuse", "decoder": "lzma2", "seed": seed, "history": h, "ops": desc}));
                }
            }
        }
        if rep.samples.len() < 6 {
            rep.sample(json!({"decoder": "Lzma2Decoder", "ops": desc}));
        }
    }
    rep.add("trace_events", trace.len() as u64);
    if let Some(p) = trace_path {
        std::fs::write(p, trace.join("\n") + "\n").expect("write trace");
        rep.traces.push(p.to_string());
    }
    let _ = hex(&[]);
}

//! Byte-level expectations derived from the format rules (LzmaDecoder.tla's declarative
//! twin) evaluated with the reference decoder.  Three-valued: Ok / Err / Any, where Any
//! marks inputs whose outcome no listed property fixes (DESIGN.md §6).

use crate::api::Opt;
use crate::coding::Props;
use crate::refdec::{self, End};

#[derive(Clone, Copy, Debug, PartialEq, Eq)]
pub enum Exp {
    Ok,
    Err,
    Any,
}

#[derive(Clone, Debug)]
pub struct Expect {
    pub v: Exp,
    /// output on Ok; on Err the sink must be a prefix of this
    pub out: Vec<u8>,
    /// why (for reports)
    pub class: String,
    /// bytes of input consumed on Ok when the property fixes it (C11)
    pub consumed: Option<usize>,
    /// largest window actually needed: min(dict, produced)
    pub need: u64,
    pub nsyms: usize,
}

pub fn size_in_effect(opt: Opt, header_field: Option<u64>) -> Option<u64> {
    match opt {
        Opt::ReadFromHeader => header_field,
        Opt::ReadHeaderButUseProvided { n } => n,
        Opt::UseProvided { n } => n,
    }
}

/// Expectation for a raw LZMA payload (range coder preamble first).
pub fn expect_payload(payload: &[u8], p: Props, dict: u64, size: Option<u64>, memlimit: Option<u64>) -> Expect {
    let r = match refdec::decode(payload, p, dict, size, None) {
        None => {
            return Expect {
                v: Exp::Err,
                out: vec![],
                // with a size n > 0 in effect this is "input that runs out first" (C08's own words); without one no
                // listed property says what an input without a complete preamble is
                class: if matches!(size, Some(n) if n > 0) { "truncated".into() } else { "preamble-short".into() },
                consumed: None,
                need: 0,
                nsyms: 0,
            }
        }
        Some(r) => r,
    };
    let produced = r.out.len() as u64;
    let need = produced.min(dict);
    // output a decoder delivers when it accepts an input of the class "truncated-behind-last-bit"
    let mut open_out: Option<Vec<u8>> = None;
    let (mut v, mut class, mut consumed) = match r.end {
        End::SizeReached => {
            if Some(produced) == size {
                if r.final_clean {
                    (Exp::Ok, "size".to_string(), Some(r.consumed))
                } else {
                    // the size is reached but the coder is not at rest (more symbols or a marker follow in the same
                    // range-coded stream): lzma-rs stops and succeeds, a decoder that insists on a finished coder
                    // (liblzma) refuses - no listed property decides; a complete payload followed by unrelated bytes
                    // (C11) always ends with the coder at rest
                    (Exp::Any, "size-reached-coder-not-at-rest".to_string(), None)
                }
            } else {
                (Exp::Err, "overshoot".to_string(), None)
            }
        }
        End::Eos { clean } => {
            if size.is_some() {
                (Exp::Err, "eos-before-size".to_string(), None)
            } else if clean {
                (Exp::Ok, "eos".to_string(), Some(r.consumed))
            } else if r.consumed < payload.len() {
                (Exp::Err, "bytes-after-eos".to_string(), None)
            } else {
                (Exp::Any, "eos-unclean".to_string(), None)
            }
        }
        End::Truncated => {
            // The reference decoder normalises AFTER every bit.  When the only missing byte is the one that the
            // normalisation behind the LAST bit of the size-reaching symbol would read, no decision depends on it: a
            // decoder that normalises before each bit (liblzma) produces exactly the size in effect and may succeed -
            // "input that runs out first" does not apply.  Detected by decoding the input padded with 0x00 and with
            // 0xFF: both reach the size, with the same bytes, reading exactly one byte more.
            let open = match size {
                Some(n) => {
                    let run = |pad: u8| {
                        let mut pp = payload.to_vec();
                        pp.push(pad);
                        refdec::decode(&pp, p, dict, size, None).filter(|r2| r2.end == End::SizeReached && r2.out.len() as u64 == n && r2.consumed == pp.len()).map(|r2| r2.out)
                    };
                    match (run(0x00), run(0xFF)) {
                        (Some(a), Some(b)) if a == b && a.starts_with(&r.out) => Some(a),
                        _ => None,
                    }
                }
                None => None,
            };
            if let Some(o) = open {
                open_out = Some(o);
                (Exp::Any, "truncated-behind-last-bit".to_string(), None)
            } else {
                (Exp::Err, "truncated".to_string(), None)
            }
        }
        End::BadDistance => (Exp::Err, "dist".to_string(), None),
        End::CleanEndNoMarker => (Exp::Any, "clean-end-without-marker".to_string(), None),
    };
    if let Some(m) = memlimit {
        // window needed at any time = min(dict, produced so far); a failing copy may have
        // been partially appended by an implementation, so only the monotone bound counts
        if need > m {
            v = Exp::Err;
            class = format!("mem({})", class);
            consumed = None;
        } else if v != Exp::Ok && matches!(r.end, End::BadDistance | End::Truncated) {
            // unchanged
        }
    }
    Expect {
        v,
        out: open_out.unwrap_or(r.out),
        class,
        consumed,
        need,
        nsyms: r.syms.len(),
    }
}

/// Expectation for a whole .lzma byte string under a decode option.
pub fn expect_lzma(data: &[u8], opt: Opt, memlimit: Option<u64>) -> Expect {
    let with_size = opt.header_len() == 13;
    let bad = |c: &str| Expect {
        v: Exp::Err,
        out: vec![],
        class: c.into(),
        consumed: None,
        need: 0,
        nsyms: 0,
    };
    if data.len() < opt.header_len() {
        return bad("header-short");
    }
    if data[0] >= 225 {
        return bad("props");
    }
    let (p, dict, field, hl) = refdec::parse_header(data, with_size).unwrap();
    let size = size_in_effect(opt, field);
    let mut e = expect_payload(&data[hl..], p, dict, size, memlimit);
    e.consumed = e.consumed.map(|c| c + hl);
    e
}

// ------------------------------------------------------------------------ LZMA2 (byte level)

/// Reference LZMA2 decoder: the format rules of Lzma2.tla evaluated on bytes with the
/// reference symbol decoder.  Format-invalid-but-unlisted inputs (first chunk without
/// dictionary reset, LZMA chunk without properties) are `Any`.
pub fn expect_lzma2(data: &[u8]) -> Expect {
    use crate::coding::{Probs, CS};
    let mut pos = 0usize;
    let mut total: Vec<u8> = vec![];
    let mut cs = CS::default();
    let mut probs = Probs::default();
    let mut props: Option<Props> = None;
    let mut need_dict_reset = true;
    let mut need_props = true;
    let mut lenient = false;
    let mut nsyms = 0usize;
    let fin = |v: Exp, class: &str, total: &Vec<u8>, cs: &CS, consumed: Option<usize>, nsyms: usize| {
        let mut out = total.clone();
        out.extend_from_slice(&cs.out);
        Expect { v, out, class: class.to_string(), consumed, need: 0, nsyms }
    };
    loop {
        if pos >= data.len() {
            return fin(Exp::Err, "missing-end", &total, &cs, None, nsyms);
        }
        let c = data[pos];
        pos += 1;
        if c == 0 {
            let v = if lenient { Exp::Any } else { Exp::Ok };
            return fin(v, if lenient { "lenient-reset-discipline" } else { "end" }, &total, &cs, Some(pos), nsyms);
        }
        if c == 1 || c == 2 {
            if pos + 2 > data.len() {
                return fin(Exp::Err, "raw-header-short", &total, &cs, None, nsyms);
            }
            let n = ((data[pos] as usize) << 8 | data[pos + 1] as usize) + 1;
            pos += 2;
            if c == 1 {
                total.extend_from_slice(&cs.out);
                cs.out.clear();
                need_dict_reset = false;
                need_props = true;
            } else if need_dict_reset {
                lenient = true;
            }
            if pos + n > data.len() {
                return fin(Exp::Err, "raw-short", &total, &cs, None, nsyms);
            }
            cs.out.extend_from_slice(&data[pos..pos + n]);
            pos += n;
            nsyms += 1;
            continue;
        }
        if c < 0x80 {
            return fin(Exp::Err, "control", &total, &cs, None, nsyms);
        }
        let class = (c >> 5) & 3;
        if pos + 4 > data.len() {
            return fin(Exp::Err, "lzma-header-short", &total, &cs, None, nsyms);
        }
        let unpacked = ((((c & 0x1F) as usize) << 16) | (data[pos] as usize) << 8 | data[pos + 1] as usize) + 1;
        let packed = ((data[pos + 2] as usize) << 8 | data[pos + 3] as usize) + 1;
        pos += 4;
        if class == 3 {
            total.extend_from_slice(&cs.out);
            cs.out.clear();
            need_dict_reset = false;
        } else if need_dict_reset {
            lenient = true;
        }
        if class >= 1 {
            cs.st = 0;
            cs.rep = [0; 4];
            probs.reset();
        }
        if class >= 2 {
            if pos >= data.len() {
                return fin(Exp::Err, "props-missing", &total, &cs, None, nsyms);
            }
            let pb = data[pos];
            pos += 1;
            match Props::from_byte(pb) {
                Some(p) if p.lc + p.lp <= 4 => props = Some(p),
                _ => return fin(Exp::Err, "props", &total, &cs, None, nsyms),
            }
            need_props = false;
        } else if need_props {
            lenient = true;
        }
        let p = props.unwrap_or(Props { lc: 0, lp: 0, pb: 0 });
        let avail = data.len() - pos;
        let take = packed.min(avail);
        let payload = &data[pos..pos + take];
        let target = cs.out.len() as u64 + unpacked as u64;
        let r = match refdec::decode(payload, p, u64::MAX, Some(target), Some((cs.clone(), probs.clone()))) {
            None => return fin(Exp::Err, "packed-short(preamble)", &total, &cs, None, nsyms),
            Some(r) => r,
        };
        nsyms += r.syms.len();
        let base = cs.out.len();
        let ok = r.end == End::SizeReached && r.out.len() as u64 == target && r.consumed == take && take == packed && r.final_clean;
        // The declared amount was produced and all declared input is present, but the chunk holds spare bytes after
        // its last symbol, or the coder does not end on code 0.  C17 lists "needs MORE input than declared" and
        // "produces more or fewer bytes than declared"; whether spare input is an error depends on whether it encodes
        // further output.  If at least one more byte is decodable from the declared input the chunk "produces more
        // than its declared size" (error); if not, the rules leave the verdict open.
        if !ok && r.end == End::SizeReached && r.out.len() as u64 == target && take == packed {
            let more = refdec::decode(payload, p, u64::MAX, Some(target + 1), Some((cs.clone(), probs.clone())));
            let produces_more = matches!(&more, Some(m) if m.end == End::SizeReached && m.out.len() as u64 > target);
            if !produces_more {
                // decode on as a lenient decoder would (state after the declared output), verdict open from here
                lenient = true;
                cs = r.final_cs;
                probs = r.final_probs;
                pos += take;
                continue;
            }
        }
        if !ok {
            let class_s = match r.end {
                End::BadDistance => "dist",
                End::Truncated => "chunk-input-short",
                End::Eos { .. } => "eos-in-chunk",
                End::SizeReached if r.out.len() as u64 != target => "unpacked-less-inside-match",
                End::SizeReached => "chunk-has-spare-input",
                End::CleanEndNoMarker => "chunk-input-short",
            };
            // valid prefix produced before the failure
            let mut keep = cs.clone();
            keep.out = r.out[..r.out.len().min(target as usize).max(base)].to_vec();
            // a failing copy may not be applied at all: the guaranteed-valid prefix is what the symbols before it gave
            return fin(Exp::Err, class_s, &total, &keep, None, nsyms);
        }
        cs = r.final_cs;
        probs = r.final_probs;
        pos += take;
    }
}

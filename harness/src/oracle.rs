//! Byte-level expectations derived from the format rules (LzmaDecoder.tla's declarative
//! twin) evaluated with the reference decoder.  Three-valued: Ok / Err / Any, where Any
//! marks inputs whose outcome no listed property fixes (DESIGN.md §6).

use crate::api::Opt;
use crate::coding::Props;
use crate::refdec::{self, End};

#[derive(Clone, Copy, Debug, PartialEq, Eq)]
pub enum Exp {
    Ok,
    Err,
    Any,
}

#[derive(Clone, Debug)]
pub struct Expect {
    pub v: Exp,
    /// output on Ok; on Err the sink must be a prefix of this
    pub out: Vec<u8>,
    /// why (for reports)
    pub class: String,
    /// bytes of input consumed on Ok when the property fixes it (C11)
    pub consumed: Option<usize>,
    /// largest window actually needed: min(dict, produced)
    pub need: u64,
    pub nsyms: usize,
}

pub fn size_in_effect(opt: Opt, header_field: Option<u64>) -> Option<u64> {
    match opt {
        Opt::ReadFromHeader => header_field,
        Opt::ReadHeaderButUseProvided { n } => n,
        Opt::UseProvided { n } => n,
    }
}

/// Expectation for a raw LZMA payload (range coder preamble first).
pub fn expect_payload(payload: &[u8], p: Props, dict: u64, size: Option<u64>, memlimit: Option<u64>) -> Expect {
    let r = match refdec::decode(payload, p, dict, size, None) {
        None => {
            return Expect {
                v: Exp::Err,
                out: vec![],
                class: "preamble-short".into(),
                consumed: None,
                need: 0,
                nsyms: 0,
            }
        }
        Some(r) => r,
    };
    let produced = r.out.len() as u64;
    let need = produced.min(dict);
    let (mut v, mut class, mut consumed) = match r.end {
        End::SizeReached => {
            if Some(produced) == size {
                (Exp::Ok, "size".to_string(), Some(r.consumed))
            } else {
                (Exp::Err, "overshoot".to_string(), None)
            }
        }
        End::Eos { clean } => {
            if size.is_some() {
                (Exp::Err, "eos-before-size".to_string(), None)
            } else if clean {
                (Exp::Ok, "eos".to_string(), Some(r.consumed))
            } else if r.consumed < payload.len() {
                (Exp::Err, "bytes-after-eos".to_string(), None)
            } else {
                (Exp::Any, "eos-unclean".to_string(), None)
            }
        }
        End::Truncated => (Exp::Err, "truncated".to_string(), None),
        End::BadDistance => (Exp::Err, "dist".to_string(), None),
        End::CleanEndNoMarker => (Exp::Any, "clean-end-without-marker".to_string(), None),
    };
    if let Some(m) = memlimit {
        // window needed at any time = min(dict, produced so far); a failing copy may have
        // been partially appended by an implementation, so only the monotone bound counts
        if need > m {
            v = Exp::Err;
            class = format!("mem({})", class);
            consumed = None;
        } else if v != Exp::Ok && matches!(r.end, End::BadDistance | End::Truncated) {
            // unchanged
        }
    }
    Expect {
        v,
        out: r.out,
        class,
        consumed,
        need,
        nsyms: r.syms.len(),
    }
}

/// Expectation for a whole .lzma byte string under a decode option.
pub fn expect_lzma(data: &[u8], opt: Opt, memlimit: Option<u64>) -> Expect {
    let with_size = opt.header_len() == 13;
    let bad = |c: &str| Expect {
        v: Exp::Err,
        out: vec![],
        class: c.into(),
        consumed: None,
        need: 0,
        nsyms: 0,
    };
    if data.len() < opt.header_len() {
        return bad("header-short");
    }
    if data[0] >= 225 {
        return bad("props");
    }
    let (p, dict, field, hl) = refdec::parse_header(data, with_size).unwrap();
    let size = size_in_effect(opt, field);
    let mut e = expect_payload(&data[hl..], p, dict, size, memlimit);
    e.consumed = e.consumed.map(|c| c + hl);
    e
}

//! Arithmetic kernel: a generic binary adaptive range encoder and decoder.
//!
//! Knows nothing about LZMA: it is driven by a list of (probability slot, bit)
//! decisions that come from the TLA+ specification (`LzmaCoding.tla`), either
//! exported by TLC or produced by the Rust transcription in `coding.rs`.
//! This is the only place where the 32/33-bit arithmetic lives (DESIGN.md §2.4, §8).

pub const PROB_INIT: u16 = 0x400;

#[derive(Clone)]
pub struct RangeEnc {
    low: u64,
    range: u32,
    cache: u8,
    cachesz: u64,
    pub out: Vec<u8>,
    /// Number of normalisation shifts so far == number of bytes a decoder has
    /// consumed after its 5-byte preamble when it is at the same point.
    pub norms: u64,
}

impl Default for RangeEnc {
    fn default() -> Self {
        Self::new()
    }
}

impl RangeEnc {
    pub fn new() -> Self {
        RangeEnc {
            low: 0,
            range: 0xFFFF_FFFF,
            cache: 0,
            cachesz: 1,
            out: Vec::new(),
            norms: 0,
        }
    }

    fn shift_low(&mut self) {
        if self.low < 0xFF00_0000 || self.low > 0xFFFF_FFFF {
            let carry = (self.low >> 32) as u8;
            let mut tmp = self.cache;
            loop {
                self.out.push(tmp.wrapping_add(carry));
                tmp = 0xFF;
                self.cachesz -= 1;
                if self.cachesz == 0 {
                    break;
                }
            }
            self.cache = ((self.low >> 24) & 0xFF) as u8;
        }
        self.cachesz += 1;
        self.low = (self.low & 0x00FF_FFFF) << 8;
    }

    fn normalize(&mut self) {
        while self.range < 0x0100_0000 {
            self.range <<= 8;
            self.shift_low();
            self.norms += 1;
        }
    }

    pub fn bit(&mut self, prob: &mut u16, b: bool) {
        let bound = (self.range >> 11) * (*prob as u32);
        if !b {
            self.range = bound;
            *prob += (0x800 - *prob) >> 5;
        } else {
            self.low += bound as u64;
            self.range -= bound;
            *prob -= *prob >> 5;
        }
        self.normalize();
    }

    pub fn direct(&mut self, b: bool) {
        self.range >>= 1;
        if b {
            self.low += self.range as u64;
        }
        self.normalize();
    }

    /// Flush: after this `out` holds 5 + norms bytes and a decoder that has
    /// decoded everything ends with code == 0.
    pub fn finish(mut self) -> Vec<u8> {
        for _ in 0..5 {
            self.shift_low();
        }
        self.out
    }

    /// Bytes a decoder will have consumed (incl. the 5-byte preamble) at this point.
    pub fn dec_consumed(&self) -> u64 {
        5 + self.norms
    }
}

/// Generic range decoder over a byte slice. Reading past the end is reported,
/// not hidden: `eof` becomes true and zero bytes are shifted in.
pub struct RangeDec<'a> {
    pub buf: &'a [u8],
    pub pos: usize,
    pub range: u32,
    pub code: u32,
    pub eof: bool,
}

impl<'a> RangeDec<'a> {
    pub fn new(buf: &'a [u8]) -> Option<Self> {
        if buf.len() < 5 {
            return None;
        }
        let code = u32::from_be_bytes([buf[1], buf[2], buf[3], buf[4]]);
        Some(RangeDec {
            buf,
            pos: 5,
            range: 0xFFFF_FFFF,
            code,
            eof: false,
        })
    }

    fn normalize(&mut self) {
        if self.range < 0x0100_0000 {
            self.range <<= 8;
            let b = if self.pos < self.buf.len() {
                self.buf[self.pos]
            } else {
                self.eof = true;
                0
            };
            self.pos += 1;
            self.code = (self.code << 8) | b as u32;
        }
    }

    pub fn bit(&mut self, prob: &mut u16) -> bool {
        let bound = (self.range >> 11) * (*prob as u32);
        if self.code < bound {
            self.range = bound;
            *prob += (0x800 - *prob) >> 5;
            self.normalize();
            false
        } else {
            self.code -= bound;
            self.range -= bound;
            *prob -= *prob >> 5;
            self.normalize();
            true
        }
    }

    pub fn direct(&mut self) -> bool {
        self.range >>= 1;
        let b = self.code >= self.range;
        if b {
            self.code -= self.range;
        }
        self.normalize();
        b
    }
}

// ---------------------------------------------------------------- CRCs (bitwise, table-free)

pub fn crc32(data: &[u8]) -> u32 {
    let mut c: u32 = 0xFFFF_FFFF;
    for &b in data {
        c ^= b as u32;
        for _ in 0..8 {
            c = if c & 1 != 0 { (c >> 1) ^ 0xEDB8_8320 } else { c >> 1 };
        }
    }
    !c
}

pub fn crc64(data: &[u8]) -> u64 {
    let mut c: u64 = !0;
    for &b in data {
        c ^= b as u64;
        for _ in 0..8 {
            c = if c & 1 != 0 {
                (c >> 1) ^ 0xC96C_5795_D787_0F42
            } else {
                c >> 1
            };
        }
    }
    !c
}

#[cfg(test)]
mod t {
    use super::*;
    #[test]
    fn crc_vectors() {
        assert_eq!(crc32(b"123456789"), 0xCBF4_3926);
        assert_eq!(crc64(b"123456789"), 0x995D_C9BB_DF19_39FA);
    }
}

//! Reference symbol-level LZMA decoder over an *unbounded* history, written against
//! the same context naming as `LzmaCoding.tla`.  Gives, for any payload, the symbol
//! sequence with per-symbol (bytes consumed, bytes produced) — the "shape" that the
//! Stream specification is instantiated with — and serves as the independent
//! conforming decoder for C04.

use crate::coding::{pos_slot, Ctx, Probs, Props, Sym, SymCost, CS, T};
use crate::kernel::RangeDec;

#[derive(Clone, Debug, PartialEq, Eq)]
pub enum End {
    /// end marker seen; `clean` = coder finished (code == 0) and no input left
    Eos { clean: bool },
    /// declared size reached
    SizeReached,
    /// input exhausted while decoding symbol (index = syms.len())
    Truncated,
    /// a copy referenced data outside the history / dictionary
    BadDistance,
    /// no size, no marker, but input ended exactly with code == 0
    CleanEndNoMarker,
}

pub struct RefResult {
    pub syms: Vec<Sym>,
    pub costs: Vec<SymCost>,
    pub out: Vec<u8>,
    pub end: End,
    /// bytes of `payload` consumed (incl. 5-byte preamble) when decoding stopped
    pub consumed: usize,
    /// cumulative bytes consumed after each symbol (incl. preamble)
    pub cum_bytes: Vec<usize>,
    pub final_cs: CS,
    /// code == 0 right after the preamble / after each symbol
    pub z0: bool,
    pub zs: Vec<bool>,
    /// for End::BadDistance: (fails already before the symbol is fully decoded, bytes consumed by the failing symbol)
    pub fail: Option<(bool, u32)>,
    /// code == 0 when decoding stopped
    pub final_clean: bool,
    /// adaptive model when decoding stopped (to continue in the next LZMA2 chunk)
    pub final_probs: Probs,
}

struct D<'a> {
    rc: RangeDec<'a>,
    probs: Probs,
}

impl<'a> D<'a> {
    fn bit(&mut self, t: T, sub: u32, node: u32) -> u32 {
        let p = self.probs.get(Ctx { t, sub, node });
        self.rc.bit(p) as u32
    }
    fn tree(&mut self, t: T, sub: u32, k: u32) -> u32 {
        let mut m = 1u32;
        for _ in 0..k {
            m = 2 * m + self.bit(t, sub, m);
        }
        m - (1 << k)
    }
    fn rev_tree(&mut self, t: T, sub: u32, k: u32) -> u32 {
        let mut m = 1u32;
        let mut v = 0;
        for i in 0..k {
            let b = self.bit(t, sub, m);
            m = 2 * m + b;
            v |= b << i;
        }
        v
    }
    fn len(&mut self, rep: bool, ps: u32) -> u32 {
        let (c, lo, mi, hi) = if rep {
            (T::RepLen, T::RepLenLow, T::RepLenMid, T::RepLenHigh)
        } else {
            (T::Len, T::LenLow, T::LenMid, T::LenHigh)
        };
        if self.bit(c, 0, 0) == 0 {
            self.tree(lo, ps, 3)
        } else if self.bit(c, 0, 1) == 0 {
            8 + self.tree(mi, ps, 3)
        } else {
            16 + self.tree(hi, 0, 8)
        }
    }
    fn dist(&mut self, len_state: u32) -> u32 {
        let slot = self.tree(T::PosSlot, len_state, 6);
        if slot < 4 {
            return slot;
        }
        let nd = (slot >> 1) - 1;
        let base = (2 + (slot & 1)) << nd;
        if slot < 14 {
            base + self.rev_tree(T::Spec, slot, nd)
        } else {
            let mut v = 0u32;
            for _ in 0..(nd - 4) {
                v = (v << 1) | self.rc.direct() as u32;
            }
            base.wrapping_add(v << 4).wrapping_add(self.rev_tree(T::Align, 0, 4))
        }
    }
}

/// Decode `payload` (starting at the range coder preamble).  `init` lets LZMA2
/// chunks continue from a carried state; `dict` bounds distances; `size` is the
/// uncompressed size in effect (total length of `out`, counted from `init.out`'s
/// start).
pub fn decode(
    payload: &[u8],
    p: Props,
    dict: u64,
    size: Option<u64>,
    init: Option<(CS, Probs)>,
) -> Option<RefResult> {
    let rc = RangeDec::new(payload)?;
    let (mut cs, probs) = init.unwrap_or_default();
    let mut d = D { rc, probs };
    let mut syms = Vec::new();
    let mut costs = Vec::new();
    let mut cum = Vec::new();
    let mut zs = Vec::new();
    let z0 = d.rc.code == 0;
    let mut fail = None;
    let end;
    loop {
        if let Some(sz) = size {
            if cs.out.len() as u64 >= sz {
                end = End::SizeReached;
                break;
            }
        } else if d.rc.pos >= payload.len() && d.rc.code == 0 {
            end = End::CleanEndNoMarker;
            break;
        }
        let pos0 = d.rc.pos;
        let out0 = cs.out.len();
        let ps = cs.pos_state(p.pb);
        let st = cs.st as u32;
        let sym;
        if d.bit(T::IsMatch, st, ps) == 0 {
            let ctx = cs.lit_ctx(p.lc, p.lp);
            let mut m = 1u32;
            if cs.st >= 7 {
                if cs.rep[0] + 1 > cs.out.len() as u64 || cs.rep[0] + 1 > dict {
                    end = End::BadDistance;
                    fail = Some((true, (d.rc.pos - pos0) as u32));
                    break;
                }
                let mut mb = cs.out[cs.out.len() - 1 - cs.rep[0] as usize] as u32;
                while m < 0x100 {
                    let mbit = (mb >> 7) & 1;
                    mb <<= 1;
                    let b = d.bit(T::Lit, ctx, (1 + mbit) * 256 + m);
                    m = 2 * m + b;
                    if mbit != b {
                        break;
                    }
                }
            }
            while m < 0x100 {
                m = 2 * m + d.bit(T::Lit, ctx, m);
            }
            sym = Sym::Lit { b: (m - 0x100) as u8 };
        } else if d.bit(T::IsRep, st, 0) == 0 {
            let l = d.len(false, ps);
            let d0 = d.dist(l.min(3));
            if d0 == 0xFFFF_FFFF {
                sym = Sym::Eos;
            } else {
                sym = Sym::Match {
                    d: d0 as u64 + 1,
                    n: l + 2,
                };
            }
        } else if d.bit(T::IsRepG0, st, 0) == 0 {
            if d.bit(T::IsRep0Long, st, ps) == 0 {
                sym = Sym::Short;
            } else {
                let l = d.len(true, ps);
                sym = Sym::Rep { r: 0, n: l + 2 };
            }
        } else {
            let r = if d.bit(T::IsRepG1, st, 0) == 0 {
                1
            } else if d.bit(T::IsRepG2, st, 0) == 0 {
                2
            } else {
                3
            };
            let l = d.len(true, ps);
            sym = Sym::Rep { r, n: l + 2 };
        }
        if d.rc.eof {
            end = End::Truncated;
            break;
        }
        if sym == Sym::Eos {
            syms.push(sym);
            costs.push(SymCost {
                bytes: (d.rc.pos - pos0) as u32,
                out: 0,
            });
            cum.push(d.rc.pos);
            zs.push(d.rc.code == 0);
            end = End::Eos {
                clean: d.rc.code == 0 && d.rc.pos >= payload.len(),
            };
            break;
        }
        let dist_ok = match sym {
            Sym::Lit { .. } => true,
            Sym::Match { d: dd, .. } => dd <= cs.out.len() as u64 && dd <= dict,
            Sym::Short => cs.rep[0] + 1 <= cs.out.len() as u64 && cs.rep[0] + 1 <= dict,
            Sym::Rep { r, .. } => {
                cs.rep[r as usize] + 1 <= cs.out.len() as u64 && cs.rep[r as usize] + 1 <= dict
            }
            Sym::Eos | Sym::Eosn { .. } => true,
        };
        if !dist_ok {
            end = End::BadDistance;
            fail = Some((false, (d.rc.pos - pos0) as u32));
            break;
        }
        cs.apply(&sym);
        syms.push(sym);
        costs.push(SymCost {
            bytes: (d.rc.pos - pos0) as u32,
            out: (cs.out.len() - out0) as u32,
        });
        cum.push(d.rc.pos);
        zs.push(d.rc.code == 0);
    }
    let _ = pos_slot;
    let final_clean = d.rc.code == 0;
    Some(RefResult {
        syms,
        costs,
        out: cs.out.clone(),
        end,
        consumed: d.rc.pos.min(payload.len()),
        cum_bytes: cum,
        final_cs: cs,
        z0,
        zs,
        fail,
        final_clean,
        final_probs: d.probs,
    })
}

/// Parse a .lzma header. Returns (props, dict (clamped), size field, header len).
pub fn parse_header(data: &[u8], with_size: bool) -> Option<(Props, u64, Option<u64>, usize)> {
    let hl = if with_size { 13 } else { 5 };
    if data.len() < hl {
        return None;
    }
    let p = Props::from_byte(data[0])?;
    let dict = u32::from_le_bytes([data[1], data[2], data[3], data[4]]) as u64;
    let dict = dict.max(4096);
    let size = if with_size {
        let mut b = [0u8; 8];
        b.copy_from_slice(&data[5..13]);
        let v = u64::from_le_bytes(b);
        if v == u64::MAX {
            None
        } else {
            Some(v)
        }
    } else {
        None
    };
    Some((p, dict, size, hl))
}

//! Binding of RangeCoderSmall.tla: a range coder generic in (W, B, P, M), written like the kernel.
//!  (1) at the model's small parameters it must reproduce, digit for digit, every stream TLC exported,
//!      and decode it back with exact lock-step;
//!  (2) at (32, 8, 11, 5) it must be bit-identical to the fixed kernel (`kernel.rs`) that all other
//!      checks use and that is itself cross-checked against lzma-rs / liblzma.

use crate::d_lzma::tlc_json_lines;
use crate::kernel::RangeEnc;
use crate::report::{hash_of, Report};
use rand::rngs::StdRng;
use rand::{Rng, SeedableRng};
use serde_json::{json, Value};

#[derive(Clone, Copy)]
pub struct Par {
    pub w: u32,
    pub b: u32,
    pub p: u32,
    pub m: u32,
}

pub struct GenEnc {
    par: Par,
    low: u64,
    range: u64,
    cache: u64,
    cachesz: u64,
    pub out: Vec<u64>,
    pub norms: u64,
}

impl GenEnc {
    pub fn new(par: Par) -> Self {
        GenEnc { par, low: 0, range: (1u64 << par.w) - 1, cache: 0, cachesz: 1, out: vec![], norms: 0 }
    }
    fn top(&self) -> u64 {
        1u64 << (self.par.w - self.par.b)
    }
    fn dmax(&self) -> u64 {
        (1u64 << self.par.b) - 1
    }
    fn shift_low(&mut self) {
        let (w, b) = (self.par.w, self.par.b);
        if self.low < self.dmax() * self.top() || self.low >= (1u64 << w) {
            let carry = self.low >> w;
            let mut tmp = self.cache;
            loop {
                self.out.push((tmp + carry) & self.dmax());
                tmp = self.dmax();
                self.cachesz -= 1;
                if self.cachesz == 0 {
                    break;
                }
            }
            self.cache = (self.low >> (w - b)) & self.dmax();
        }
        self.cachesz += 1;
        self.low = (self.low & (self.top() - 1)) << b;
    }
    pub fn bit(&mut self, prob: &mut u64, bit: bool) {
        let bound = (self.range >> self.par.p) * *prob;
        if !bit {
            self.range = bound;
            *prob += ((1u64 << self.par.p) - *prob) >> self.par.m;
        } else {
            self.low += bound;
            self.range -= bound;
            *prob -= *prob >> self.par.m;
        }
        while self.range < self.top() {
            self.range <<= self.par.b;
            self.shift_low();
            self.norms += 1;
        }
    }
    pub fn finish(mut self) -> Vec<u64> {
        for _ in 0..(self.par.w / self.par.b + 1) {
            self.shift_low();
        }
        self.out
    }
}

/// Decode n bits over `nctx` round-robin contexts; returns (bits, digits consumed, ran past the end, code at end)
pub fn gen_decode(par: Par, s: &[u64], n: usize, nctx: usize) -> (Vec<u8>, usize, bool, u64) {
    let nd = (par.w / par.b) as usize;
    let mut code = 0u64;
    for i in 0..nd {
        code = (code << par.b) | s.get(1 + i).cloned().unwrap_or(0);
    }
    let mut pos = nd + 1;
    let mut eof = false;
    let mut range = (1u64 << par.w) - 1;
    let top = 1u64 << (par.w - par.b);
    let mut probs = vec![1u64 << (par.p - 1); nctx];
    let mut bits = vec![];
    for i in 0..n {
        let p = &mut probs[i % nctx];
        let bound = (range >> par.p) * *p;
        let bit = if code < bound {
            range = bound;
            *p += ((1u64 << par.p) - *p) >> par.m;
            0
        } else {
            code -= bound;
            range -= bound;
            *p -= *p >> par.m;
            1
        };
        if range < top {
            range <<= par.b;
            let d = if pos < s.len() { s[pos] } else { eof = true; 0 };
            pos += 1;
            code = ((code << par.b) | d) & ((1u64 << par.w) - 1);
        }
        bits.push(bit);
    }
    (bits, pos, eof, code)
}

pub fn run(prop: &str, seed: u64, export: &str, par: Par, nctx: usize, rep: &mut Report) {
    // (1) TLC export at the small parameters
    let lines = tlc_json_lines(export, "RC");
    rep.add("tlc_streams_in_export", lines.len() as u64);
    for l in &lines {
        let v: Value = match serde_json::from_str(l) {
            Ok(v) => v,
            Err(e) => {
                rep.tool_error(format!("bad RC line: {}", e));
                continue;
            }
        };
        let bits: Vec<u8> = v["bits"].as_array().unwrap().iter().map(|x| x.as_u64().unwrap() as u8).collect();
        let want: Vec<u64> = v["out"].as_array().unwrap().iter().map(|x| x.as_u64().unwrap()).collect();
        let mut e = GenEnc::new(par);
        let mut probs = vec![1u64 << (par.p - 1); nctx];
        for (i, b) in bits.iter().enumerate() {
            e.bit(&mut probs[i % nctx], *b != 0);
        }
        let norms = e.norms;
        let got = e.finish();
        rep.eval(hash_of(&bits), true);
        if got != want {
            rep.tool_error(format!("generic kernel disagrees with RangeCoderSmall.tla on bits {:?}: {:?} vs {:?}", bits, got, want));
            continue;
        }
        let (dbits, pos, eof, code) = gen_decode(par, &got, bits.len(), nctx);
        if dbits != bits || eof || pos != got.len() || code != 0 || got.len() as u64 != (par.w / par.b) as u64 + 1 + norms {
            rep.tool_error(format!("generic decoder loses round trip / lock-step on {:?}", bits));
        }
    }
    if let Some(l) = lines.first() {
        rep.sample(json!({"origin": "tlc:MC_RangeCoderSmall", "case": serde_json::from_str::<Value>(l).unwrap()}));
    }
    // (2) generic kernel at the real parameters == fixed kernel, on random context/bit sequences with long
    //     runs (pending 0xFF digits and carries)
    let real = Par { w: 32, b: 8, p: 11, m: 5 };
    let mut rng = StdRng::seed_from_u64(seed ^ 0x4c);
    for t in 0..200usize {
        let n = [50usize, 500, 5000, 40000][t % 4];
        let nctx2 = [1usize, 3, 40][t % 3];
        let mut g = GenEnc::new(real);
        let mut k = RangeEnc::new();
        let mut gp = vec![1u64 << 10; nctx2];
        let mut kp = vec![0x400u16; nctx2];
        let bias = [0.5f64, 0.03, 0.97, 0.8][t % 4];
        for i in 0..n {
            let c = if t % 2 == 0 { i % nctx2 } else { rng.gen_range(0..nctx2) };
            let b = rng.gen_bool(bias);
            g.bit(&mut gp[c], b);
            k.bit(&mut kp[c], b);
        }
        let same_norms = g.norms == k.norms;
        let go: Vec<u8> = g.finish().iter().map(|d| *d as u8).collect();
        let ko = k.finish();
        rep.eval(hash_of(&(seed, t)), true);
        if go != ko || !same_norms {
            rep.tool_error(format!("generic kernel at (32,8,11,5) differs from kernel.rs (case {})", t));
        }
    }
    let _ = prop;
}

//! I/O wrappers: scripted BufRead (fragmentation / faults), failing and short-writing
//! sinks, shared sink for Stream, counting allocator, panic capture.

use std::cell::RefCell;
use std::io::{self, BufRead, Read, Write};
use std::rc::Rc;

/// A BufRead over a byte slice that exposes the data in scripted fragments and can
/// fail at the k-th underlying call.  Logs every operation.
pub struct ScriptReader<'a> {
    pub data: &'a [u8],
    pub pos: usize,
    /// fragment sizes to use cyclically for fill_buf (each >= 1)
    pub frags: Vec<usize>,
    pub fi: usize,
    /// currently exposed fragment end (pos..cur_end), 0 = none exposed
    pub cur_end: usize,
    /// fail the k-th call (1-based) of fill_buf/read combined; 0 = never
    pub fail_at: usize,
    pub calls: usize,
    pub failed: bool,
    /// short reads: when true `read()` returns at most the current fragment
    pub short_reads: bool,
    pub calls_after_fail: usize,
}

impl<'a> ScriptReader<'a> {
    pub fn new(data: &'a [u8], frags: Vec<usize>) -> Self {
        ScriptReader {
            data,
            pos: 0,
            frags: if frags.is_empty() { vec![usize::MAX / 2] } else { frags },
            fi: 0,
            cur_end: 0,
            fail_at: 0,
            calls: 0,
            failed: false,
            short_reads: true,
            calls_after_fail: 0,
        }
    }
    pub fn failing(mut self, k: usize) -> Self {
        self.fail_at = k;
        self
    }
    fn tick(&mut self) -> io::Result<()> {
        if self.failed {
            self.calls_after_fail += 1;
        }
        self.calls += 1;
        if self.fail_at != 0 && self.calls == self.fail_at {
            self.failed = true;
            return Err(io::Error::new(io::ErrorKind::Other, "scripted read failure"));
        }
        Ok(())
    }
    fn expose(&mut self) {
        if self.cur_end <= self.pos {
            let f = self.frags[self.fi % self.frags.len()].max(1);
            self.fi += 1;
            self.cur_end = (self.pos.saturating_add(f)).min(self.data.len());
        }
    }
    pub fn consumed(&self) -> usize {
        self.pos
    }
}

impl<'a> Read for ScriptReader<'a> {
    fn read(&mut self, buf: &mut [u8]) -> io::Result<usize> {
        self.tick()?;
        if buf.is_empty() {
            return Ok(0);
        }
        self.expose();
        let avail = if self.short_reads { self.cur_end - self.pos } else { self.data.len() - self.pos };
        let n = avail.min(buf.len());
        buf[..n].copy_from_slice(&self.data[self.pos..self.pos + n]);
        self.pos += n;
        Ok(n)
    }
}

impl<'a> BufRead for ScriptReader<'a> {
    fn fill_buf(&mut self) -> io::Result<&[u8]> {
        self.tick()?;
        self.expose();
        Ok(&self.data[self.pos..self.cur_end])
    }
    fn consume(&mut self, amt: usize) {
        assert!(self.pos + amt <= self.cur_end.max(self.pos), "consume beyond exposed fragment");
        self.pos += amt;
    }
}

/// Sink that records bytes, can fail the k-th write call, the flush, and can accept
/// only part of each write.
#[derive(Default, Clone)]
pub struct FaultSink {
    pub data: Vec<u8>,
    pub writes: usize,
    pub flushes: usize,
    /// fail the k-th write (1-based), 0 = never
    pub fail_write_at: usize,
    /// fail the k-th flush (1-based), 0 = never
    pub fail_flush_at: usize,
    /// max bytes accepted per write; 0 = everything
    pub short: usize,
    /// pattern of accepted sizes (cyclic) overriding `short` when non-empty
    pub short_pattern: Vec<usize>,
    pub failed: bool,
    pub calls_after_fail: usize,
    pub flushed_len: usize,
    /// return Ok(0) on the k-th write instead of Err (WriteZero path)
    pub zero_at: usize,
    /// the scripted write failure has kind WouldBlock instead of Other
    pub fail_wouldblock: bool,
}

impl Write for FaultSink {
    fn write(&mut self, buf: &[u8]) -> io::Result<usize> {
        if self.failed {
            self.calls_after_fail += 1;
        }
        self.writes += 1;
        if self.fail_write_at != 0 && self.writes == self.fail_write_at {
            self.failed = true;
            let kind = if self.fail_wouldblock { io::ErrorKind::WouldBlock } else { io::ErrorKind::Other };
            return Err(io::Error::new(kind, "scripted write failure"));
        }
        if self.zero_at != 0 && self.writes == self.zero_at && !buf.is_empty() {
            self.failed = true;
            return Ok(0);
        }
        let mut n = buf.len();
        if !self.short_pattern.is_empty() {
            let k = self.short_pattern[(self.writes - 1) % self.short_pattern.len()].max(1);
            n = n.min(k);
        } else if self.short != 0 {
            n = n.min(self.short);
        }
        self.data.extend_from_slice(&buf[..n]);
        Ok(n)
    }
    fn flush(&mut self) -> io::Result<()> {
        if self.failed {
            self.calls_after_fail += 1;
        }
        self.flushes += 1;
        if self.fail_flush_at != 0 && self.flushes == self.fail_flush_at {
            self.failed = true;
            return Err(io::Error::new(io::ErrorKind::Other, "scripted flush failure"));
        }
        self.flushed_len = self.data.len();
        Ok(())
    }
}

/// A sink whose contents stay observable after the decoder consumed/dropped it.
#[derive(Clone, Default)]
pub struct SharedSink(pub Rc<RefCell<FaultSink>>);

impl SharedSink {
    pub fn new() -> Self {
        Self::default()
    }
    pub fn len(&self) -> usize {
        self.0.borrow().data.len()
    }
    pub fn bytes(&self) -> Vec<u8> {
        self.0.borrow().data.clone()
    }
}

impl Write for SharedSink {
    fn write(&mut self, buf: &[u8]) -> io::Result<usize> {
        self.0.borrow_mut().write(buf)
    }
    fn flush(&mut self) -> io::Result<()> {
        self.0.borrow_mut().flush()
    }
}

// ---------------------------------------------------------------- panic capture

pub enum Caught<T> {
    Done(T),
    Panic(String),
}

pub fn catch<T>(f: impl FnOnce() -> T) -> Caught<T> {
    match std::panic::catch_unwind(std::panic::AssertUnwindSafe(f)) {
        Ok(v) => Caught::Done(v),
        Err(e) => {
            let msg = if let Some(s) = e.downcast_ref::<&str>() {
                s.to_string()
            } else if let Some(s) = e.downcast_ref::<String>() {
                s.clone()
            } else {
                "panic".to_string()
            };
            Caught::Panic(msg)
        }
    }
}

pub fn silence_panics() {
    // LZVERIF_DEBUG keeps the default hook (a panic of the harness itself is then visible with its location)
    if std::env::var("LZVERIF_DEBUG").is_err() {
        std::panic::set_hook(Box::new(|_| {}));
    }
}

// ---------------------------------------------------------------- counting allocator

pub mod alloc {
    use std::alloc::{GlobalAlloc, Layout, System};
    use std::sync::atomic::{AtomicUsize, Ordering};

    pub struct Counting;
    pub static LIVE: AtomicUsize = AtomicUsize::new(0);
    pub static PEAK: AtomicUsize = AtomicUsize::new(0);
    /// hard cap: allocation requests that would take LIVE above this fail (null)
    pub static CAP: AtomicUsize = AtomicUsize::new(usize::MAX);
    pub static BIGGEST: AtomicUsize = AtomicUsize::new(0);

    unsafe impl GlobalAlloc for Counting {
        unsafe fn alloc(&self, l: Layout) -> *mut u8 {
            let live = LIVE.fetch_add(l.size(), Ordering::Relaxed) + l.size();
            if live > CAP.load(Ordering::Relaxed) {
                LIVE.fetch_sub(l.size(), Ordering::Relaxed);
                return std::ptr::null_mut();
            }
            PEAK.fetch_max(live, Ordering::Relaxed);
            BIGGEST.fetch_max(l.size(), Ordering::Relaxed);
            System.alloc(l)
        }
        unsafe fn dealloc(&self, p: *mut u8, l: Layout) {
            LIVE.fetch_sub(l.size(), Ordering::Relaxed);
            System.dealloc(p, l)
        }
        unsafe fn alloc_zeroed(&self, l: Layout) -> *mut u8 {
            let live = LIVE.fetch_add(l.size(), Ordering::Relaxed) + l.size();
            if live > CAP.load(Ordering::Relaxed) {
                LIVE.fetch_sub(l.size(), Ordering::Relaxed);
                return std::ptr::null_mut();
            }
            PEAK.fetch_max(live, Ordering::Relaxed);
            BIGGEST.fetch_max(l.size(), Ordering::Relaxed);
            System.alloc_zeroed(l)
        }
        unsafe fn realloc(&self, p: *mut u8, l: Layout, new: usize) -> *mut u8 {
            if new > l.size() {
                let d = new - l.size();
                let live = LIVE.fetch_add(d, Ordering::Relaxed) + d;
                if live > CAP.load(Ordering::Relaxed) {
                    LIVE.fetch_sub(d, Ordering::Relaxed);
                    return std::ptr::null_mut();
                }
                PEAK.fetch_max(live, Ordering::Relaxed);
                BIGGEST.fetch_max(new, Ordering::Relaxed);
            } else {
                LIVE.fetch_sub(l.size() - new, Ordering::Relaxed);
            }
            System.realloc(p, l, new)
        }
    }

    /// Start a measurement window: returns the live baseline; PEAK reset to it.
    pub fn begin() -> usize {
        let live = LIVE.load(Ordering::Relaxed);
        PEAK.store(live, Ordering::Relaxed);
        BIGGEST.store(0, Ordering::Relaxed);
        live
    }
    /// Peak growth above the baseline since `begin`.
    pub fn peak_above(base: usize) -> usize {
        PEAK.load(Ordering::Relaxed).saturating_sub(base)
    }
    pub fn biggest() -> usize {
        BIGGEST.load(Ordering::Relaxed)
    }
}

//! Driver for the streaming decoder (C05, C15, C16; streaming halves of C08/C10).
//! Records every call on the real `Stream` (ndjson, for Trace_Stream.tla) and decides the
//! contract: verdict/output equal to the one-shot decoder on the concatenated bytes.

use crate::api::{self, Opt, Verdict};
use crate::build::lzma_header;
use crate::coding::{self, Props, Sym};
use crate::d_lzma::{random_walk, WalkCfg};
use crate::io::{catch, Caught, SharedSink};
use crate::oracle::{expect_lzma, size_in_effect, Exp};
use crate::refdec::{self, End};
use crate::report::{hash_of, hex, is_prefix, unhex, Report};
use lzma_rs::decompress::Stream;
use rand::rngs::StdRng;
use rand::{Rng, SeedableRng};
use serde::{Deserialize, Serialize};
use serde_json::{json, Value};
use std::io::Write;

#[derive(Clone, Debug, Serialize, Deserialize)]
pub struct StreamCase {
    pub data_hex: String,
    pub opt: Opt,
    #[serde(default)]
    pub memlimit: Option<u64>,
    #[serde(default)]
    pub allow_incomplete: bool,
    pub cuts: Vec<usize>,
    #[serde(default)]
    pub origin: String,
    /// "c05" | "c15" | "c16"
    pub mode: String,
    /// for c16: extra calls after the stream: sizes of additional writes
    #[serde(default)]
    pub extra_writes: Vec<usize>,
    /// [k, kind]: the sink's k-th write call fails once (kind 0: ErrorKind::Other, 1: WouldBlock); later calls succeed
    #[serde(default)]
    pub sink_fail: Vec<usize>,
}

const BIG: u64 = 1 << 30;

/// The shape of a byte string as Stream.tla wants it (see the comment in the module).
pub fn shape_of(data: &[u8], opt: Opt, memlimit: Option<u64>, inc: bool) -> Value {
    shape_of_sink(data, opt, memlimit, inc, None)
}

/// `sink_fail_k`: the sink's k-th write call fails.  The circular window hands itself over to the sink each time the
/// output reaches a multiple of the dictionary size, so the symbol that produces output byte k * dict cannot be
/// committed: in the vocabulary of Stream.tla it is an "errReal" symbol (fine in the dry run, fails when committed) -
/// the same kind a memory limit or an out-of-window distance gives.  The model's Latch / NoZeroProgress therefore
/// cover failures caused by the sink as well, and the recorded calls of such runs are validated like any others.
pub fn shape_of_sink(data: &[u8], opt: Opt, memlimit: Option<u64>, inc: bool, sink_fail_k: Option<u64>) -> Value {
    let hl = opt.header_len();
    let hdr_err = !data.is_empty() && data[0] >= 225;
    let mut syms: Vec<Value> = vec![];
    let mut z0 = false;
    let mut size_v: i64 = -1;
    if !hdr_err && data.len() >= hl {
        let (p, dict, field, _) = refdec::parse_header(data, hl == 13).unwrap();
        let size = size_in_effect(opt, field);
        size_v = match size {
            None => -1,
            Some(s) => s.min(BIG) as i64,
        };
        if let Some(r) = refdec::decode(&data[hl..], p, dict, size, None) {
            z0 = r.z0;
            let mut cb = 0u64;
            let mut co = 0u64;
            let mut cut_at: Option<usize> = None;
            for (i, c) in r.costs.iter().enumerate() {
                let is_eos = r.syms[i] == Sym::Eos;
                let new_co = co + c.out as u64;
                if let Some(k) = sink_fail_k {
                    let f = k * dict.max(4096);
                    if co < f && new_co >= f {
                        cb += c.bytes as u64;
                        syms.push(json!({"c": c.bytes, "o": 0, "k": "errReal", "z": r.zs[i], "cb": cb, "co": co}));
                        cut_at = Some(i);
                        break;
                    }
                }
                // memory limit: the window needs min(dict, produced) bytes
                if let Some(m) = memlimit {
                    if new_co.min(dict) > m {
                        cb += c.bytes as u64;
                        syms.push(json!({"c": c.bytes, "o": 0, "k": "errReal", "z": r.zs[i], "cb": cb, "co": co}));
                        cut_at = Some(i);
                        break;
                    }
                }
                cb += c.bytes as u64;
                co = new_co;
                syms.push(json!({"c": c.bytes, "o": c.out, "k": if is_eos { "eos" } else { "ok" }, "z": r.zs[i], "cb": cb, "co": co}));
            }
            if cut_at.is_none() {
                match r.end {
                    End::Eos { .. } => {
                        // whatever follows a marker fails even in the dry run (forced matched literal
                        // at distance 2^32)
                        syms.push(json!({"c": 0, "o": 0, "k": "errBoth", "z": false, "cb": cb, "co": co}));
                    }
                    End::BadDistance => {
                        let (both, c) = r.fail.unwrap();
                        cb += c as u64;
                        syms.push(json!({"c": c, "o": 0, "k": if both { "errBoth" } else { "errReal" }, "z": false, "cb": cb, "co": co}));
                    }
                    _ => {}
                }
            }
        }
    }
    json!({"hdr": hl, "hdrErr": hdr_err, "sym": syms, "z0": z0, "size": size_v, "total": data.len(), "inc": inc})
}

#[cfg(lzma_rs_verif)]
fn hook_start() {
    lzma_rs::verif::start();
}
#[cfg(lzma_rs_verif)]
fn hook_syms() -> i64 {
    let ev = lzma_rs::verif::take();
    lzma_rs::verif::start();
    ev.iter().filter(|e| matches!(e.name, "lit" | "short" | "copy" | "eos")).count() as i64
}
#[cfg(lzma_rs_verif)]
fn hook_stop() {
    let _ = lzma_rs::verif::take();
}
#[cfg(lzma_rs_verif)]
fn projection<W: Write>(s: &Stream<W>) -> Option<[u64; 6]> {
    Some(s.verif_projection())
}
#[cfg(lzma_rs_verif)]
pub const HOOKS: bool = true;

#[cfg(not(lzma_rs_verif))]
fn hook_start() {}
#[cfg(not(lzma_rs_verif))]
fn hook_syms() -> i64 {
    0
}
#[cfg(not(lzma_rs_verif))]
fn hook_stop() {}
#[cfg(not(lzma_rs_verif))]
fn projection<W: Write>(_s: &Stream<W>) -> Option<[u64; 6]> {
    None
}
#[cfg(not(lzma_rs_verif))]
pub const HOOKS: bool = false;

pub struct Traced {
    pub verdict: Verdict,
    pub out: Vec<u8>,
    pub msg: String,
    pub events: Vec<Value>,
    /// contract-tier problems seen while driving (prefix violations, growth after latch, ...)
    pub problems: Vec<String>,
    pub write_failed: bool,
    pub zero_progress: bool,
    /// input bytes the write calls reported as consumed, in total
    pub accepted: usize,
    /// running total after each write call
    pub accepted_after: Vec<usize>,
}

fn pieces(len: usize, cuts: &[usize]) -> Vec<(usize, usize)> {
    let mut v = vec![];
    let mut pos = 0;
    for &c in cuts {
        let c = c.min(len);
        if c >= pos {
            v.push((pos, c));
            pos = c;
        }
    }
    v.push((pos, len));
    v
}

/// Drive the real Stream, recording one event per call.
pub fn run_traced(c: &StreamCase, full_out: Option<&[u8]>, size_done: bool) -> Traced {
    let data = unhex(&c.data_hex);
    let o = api::options(c.opt, c.memlimit.map(|m| m as usize), c.allow_incomplete);
    let sink = SharedSink::new();
    if c.sink_fail.len() == 2 {
        let mut fs = sink.0.borrow_mut();
        fs.fail_write_at = c.sink_fail[0];
        fs.fail_wouldblock = c.sink_fail[1] == 1;
    }
    let sink2 = sink.clone();
    let mut events = vec![];
    let mut problems = vec![];
    let mut msg = String::new();
    let mut write_failed = false;
    let mut zero_progress = false;
    let mut total_syms: i64 = 0;
    let mut accepted = 0usize;
    let mut accepted_after: Vec<usize> = vec![];
    let data_ref = &data;
    let r = catch(|| {
        hook_start();
        let mut s = Stream::new_with_options(&o, sink2);
        let mut latched = false;
        let mut done_seen = false;
        let mut sink_at_latch = 0usize;
        let mut stop = false;
        let persist = c.mode == "c16";
        let mut flush_tick = 0usize;
        for (a, b) in pieces(data_ref.len(), &c.cuts) {
            if stop && !persist {
                break;
            }
            if persist {
                flush_tick += 1;
                if flush_tick % 3 == 0 {
                    let before = sink.len();
                    let _ = s.flush();
                    events.push(json!({"ev": "Flush", "before": before, "after": sink.len()}));
                    // what the driver's own flush() call delivers is not delivered by a later WRITE
                    if latched {
                        sink_at_latch = sink.len();
                    }
                    // (whether flush() hands pending output to the sink is not fixed by any listed property: the trace
                    // specification sees it - Trace_Stream!TFlush - and reports DRIFT)
                }
            }
            let mut p = &data_ref[a..b];
            let mut first = true;
            while !p.is_empty() || first {
                first = false;
                let res = s.write(p);
                total_syms += hook_syms();
                let pr = projection(&s);
                let (ret, phase) = match &res {
                    Ok(n) => (*n as i64, 0),
                    Err(_) => (-1, 2),
                };
                let _ = phase;
                if let Some(pr) = pr {
                    let phase_name = ["Header", "Data", "None"][pr[0] as usize];
                    let plv: i64 = if pr[0] == 1 { pr[2] as i64 } else { -1 };
                    let sy: i64 = if HOOKS { total_syms } else { -1 };
                    events.push(json!({"ev": "Write", "n": p.len(), "ret": ret, "phase": phase_name, "tmp": pr[1], "pl": plv, "syms": sy}));
                }
                if let Some(fo) = full_out {
                    if !is_prefix(&sink.bytes(), fo) {
                        problems.push("bytes delivered to the sink are not a prefix of the complete output".into());
                    }
                }
                match res {
                    Ok(n) => {
                        if n > p.len() {
                            problems.push(format!("write returned {} for a {}-byte buffer", n, p.len()));
                            stop = true;
                            break;
                        }
                        accepted += n.min(p.len());
                        accepted_after.push(accepted);
                        if latched && (n != 0 || sink.len() != sink_at_latch) {
                            problems.push("a write after a failed write consumed input or delivered output".into());
                        }
                        if size_done && done_seen && n != 0 {
                            problems.push(format!("a write after the declared size was reached consumed {} bytes", n));
                        }
                        if n == 0 && !p.is_empty() {
                            if !latched {
                                zero_progress = true;
                                done_seen = true;
                            }
                            stop = true;
                            break;
                        }
                        p = &p[n..];
                    }
                    Err(e) => {
                        if msg.is_empty() {
                            msg = format!("{:?}", e);
                        }
                        write_failed = true;
                        if latched && sink.len() != sink_at_latch {
                            problems.push("a write after a failed write delivered output".into());
                        }
                        latched = true;
                        sink_at_latch = sink.len();
                        stop = true;
                        break;
                    }
                }
            }
        }
        let fin = s.finish();
        total_syms += hook_syms();
        hook_stop();
        match fin {
            Ok(_) => Ok(()),
            Err(e) => {
                if msg.is_empty() {
                    msg = format!("{:?}", e);
                }
                Err(())
            }
        }
    });
    let verdict = match r {
        Caught::Done(Ok(())) => Verdict::Ok,
        Caught::Done(Err(())) => Verdict::Err,
        Caught::Panic(m) => {
            hook_stop();
            msg = m;
            Verdict::Panic
        }
    };
    if verdict != Verdict::Panic && HOOKS {
        events.push(json!({"ev": "Finish", "ok": verdict == Verdict::Ok, "syms": total_syms}));
    }
    if write_failed && verdict == Verdict::Ok {
        problems.push("finish succeeded although a write had failed".into());
    }
    Traced {
        verdict,
        out: sink.bytes(),
        msg,
        events,
        problems,
        write_failed,
        zero_progress,
        accepted,
        accepted_after,
    }
}

/// C05 contract only (no shape, no oracle): the streaming result against an already computed one-shot result.
pub fn check_against_oneshot(c: &StreamCase, data: &[u8], one: &api::Outcome, prop: &str, rep: &mut Report) -> bool {
    let r = api::stream_run(data, &c.cuts, &api::options(c.opt, c.memlimit.map(|m| m as usize), false));
    let mut vs = vec![];
    if r.verdict == Verdict::Panic {
        vs.push(format!("panic in the streaming decoder: {}", r.msg));
    } else if (r.verdict == Verdict::Ok) != (one.verdict == Verdict::Ok) {
        vs.push(format!("streaming verdict {:?} ({}) differs from one-shot verdict {:?} ({})", r.verdict, r.msg, one.verdict, one.msg));
    } else if r.verdict == Verdict::Ok && r.out != one.out {
        vs.push(format!("streaming output ({} bytes) differs from one-shot output ({} bytes)", r.out.len(), one.out.len()));
    } else if r.zero_progress_at.is_some() && one.verdict == Verdict::Ok {
        vs.push("write returned Ok(0) for non-empty input while the stream was neither failed nor complete".into());
    }
    rep.eval(hash_of(&(data.len(), &c.cuts, &c.origin)), true);
    if !vs.is_empty() {
        let mut cj = serde_json::to_value(c).unwrap();
        cj["kind"] = json!("stream");
        rep.violation(prop, vs.join("; "), cj);
        return false;
    }
    true
}

pub fn check_case(c: &StreamCase, prop: &str, rep: &mut Report, trace: &mut Option<Vec<String>>) -> bool {
    let data = unhex(&c.data_hex);
    let mut vs: Vec<String> = vec![];
    let o1 = api::options(c.opt, c.memlimit.map(|m| m as usize), false);
    let one = api::lzma_bytes(&data, &o1);
    let e = expect_lzma(&data, c.opt, c.memlimit);
    let full_out: Option<Vec<u8>> = if c.mode == "c15" { Some(e.out.clone()) } else { None };
    let hdr_size = if data.len() >= 13 && c.opt.header_len() == 13 {
        let mut b = [0u8; 8];
        b.copy_from_slice(&data[5..13]);
        let v = u64::from_le_bytes(b);
        if v == u64::MAX { None } else { Some(v) }
    } else {
        None
    };
    let size_eff = size_in_effect(c.opt, hdr_size);
    let size_done = c.mode == "c16" && size_eff.is_some() && one.verdict == Verdict::Ok;
    let t = run_traced(c, full_out.as_deref(), size_done);
    if t.verdict == Verdict::Panic {
        vs.push(format!("panic in the streaming decoder: {}", t.msg));
    }
    vs.extend(t.problems.iter().cloned());
    if size_done && t.verdict != Verdict::Panic {
        // "once the declared size has been reached, further writes consume nothing": all the write calls together
        // may not report more input consumed than the payload holds (18 = what the header staging buffer may take
        // from a first short write)
        // (the call during which the payload completes may have taken a bounded number of bytes past its end - the
        // unchanged decoder parks up to 19 bytes of a short piece before decoding them; 64 is the look-ahead C15 allows)
        // The property constrains FURTHER writes, not the one during which the size is reached, and C16 itself does
        // not say how far a decoder may lag behind its input (C15 does: 64 bytes - but that is C15's text).  So a bound
        // no reasonable decoder needs: once the calls so far have taken the whole payload plus 64 KiB, the size has
        // been reached, and every later write must consume nothing.
        if let Some(ec) = e.consumed {
            if let Some(k) = t.accepted_after.iter().position(|&a| a >= ec + 65536) {
                if let Some(&last) = t.accepted_after.last() {
                    if last > t.accepted_after[k] {
                        vs.push(format!("after {} input bytes had been taken (payload ends at byte {}, plus 64 KiB) later writes still reported {} more bytes consumed", t.accepted_after[k], ec, last - t.accepted_after[k]));
                    }
                }
            }
        }
    }
    if c.mode == "c16" && t.verdict != Verdict::Panic {
        // once the size in effect is reached (exactly, or overshot by the last copy) nothing more may be decoded:
        // the sink can never hold more than the symbols up to and including the one that reached it produce
        if let (Some(sz), Some((p, dict, _, _))) = (size_eff, refdec::parse_header(&data, c.opt.header_len() == 13)) {
            if let Some(r) = refdec::decode(&data[c.opt.header_len()..], p, dict, Some(sz), None) {
                if r.end == End::SizeReached && t.out.len() > r.out.len() {
                    vs.push(format!("the declared size {} was reached after {} output bytes but the sink received {} bytes: decoding went on after the stream was complete", sz, r.out.len(), t.out.len()));
                }
            }
        }
    }
    match c.mode.as_str() {
        "c05" | "c16" => {
            // the comparison with the one-shot decoder is C05's text: under C16 it is shape-tier information only
            let mut c05vs: Vec<String> = vec![];
            std::mem::swap(&mut c05vs, &mut vs);
            let own = c05vs;
            if one.verdict == Verdict::Panic || !c.sink_fail.is_empty() {
                // one-shot panics are C07's business; nothing to compare against (nor when the sink of this run is
                // scripted to fail: the one-shot run had a healthy one)
            } else if data.is_empty() {
                if t.verdict != Verdict::Ok || !t.out.is_empty() {
                    vs.push("zero input must finish successfully with empty output".into());
                }
            } else if t.verdict != Verdict::Panic {
                // with allow_incomplete the streaming verdict is by design not the one-shot verdict
                let extra = c.allow_incomplete;
                if !extra && (t.verdict == Verdict::Ok) != (one.verdict == Verdict::Ok) {
                    vs.push(format!(
                        "streaming verdict {:?} ({}) differs from one-shot verdict {:?} ({})",
                        t.verdict, t.msg, one.verdict, one.msg
                    ));
                } else if !extra && t.verdict == Verdict::Ok && t.out != one.out {
                    vs.push(format!("streaming output ({} bytes) differs from one-shot output ({} bytes)", t.out.len(), one.out.len()));
                }
                if t.zero_progress {
                    let done = matches!(size_eff, Some(s) if e.out.len() as u64 >= s);
                    if !done && one.verdict == Verdict::Ok {
                        vs.push("write returned Ok(0) for non-empty input while the stream was neither failed nor complete".into());
                    }
                }
            }
            // vs now holds the C05 clauses only; `own` what was found before
            if c.mode == "c16" {
                for d in vs.drain(..) {
                    rep.drift(format!("(C05 clause seen while checking C16) {}", d), json!({"origin": c.origin}));
                }
            }
            let mut all = own;
            all.extend(vs.drain(..));
            vs = all;
        }
        "c15" => {
            // data is a PREFIX of a valid stream (c.origin carries the full stream's output via expect)
        }
        _ => {}
    }
    rep.eval(hash_of(&(c.data_hex.clone(), &c.cuts, format!("{:?}", c.opt), c.memlimit, c.allow_incomplete, &c.extra_writes)), data.len() > 13 || !c.cuts.is_empty());
    rep.count(&format!("oneshot:{:?}", one.verdict));
    if let Some(tr) = trace.as_mut() {
        if !t.events.is_empty() && t.verdict != Verdict::Panic {
            tr.push(json!({"ev": "Reset", "sd": shape_of_sink(&data, c.opt, c.memlimit, c.allow_incomplete, c.sink_fail.first().map(|k| *k as u64))}).to_string());
            for ev in &t.events {
                tr.push(ev.to_string());
            }
            rep.count("traced_runs");
            rep.add("trace_events", t.events.len() as u64 + 1);
        }
    }
    if !vs.is_empty() {
        let mut cj = serde_json::to_value(c).unwrap();
        cj["kind"] = json!("stream");
        cj["observed"] = json!({"stream": format!("{:?}", t.verdict), "stream_out_len": t.out.len(), "oneshot": format!("{:?}", one.verdict), "oneshot_out_len": one.out.len(), "msg": t.msg});
        cj["predicted"] = json!({"spec_verdict": format!("{:?}", e.v), "class": e.class});
        rep.violation(prop, vs.join("; "), cj);
        return false;
    }
    true
}

// ---------------------------------------------------------------- C15 prefix / progress

/// For a valid full stream: every sampled prefix, allow_incomplete on.
pub fn check_prefixes(full: &[u8], opt: Opt, prop: &str, rng: &mut StdRng, nprefix: usize, rep: &mut Report, trace: &mut Option<Vec<String>>) {
    check_prefixes_at(full, opt, prop, rng, nprefix, &[], rep, trace)
}

/// `targeted`: (prefix length, cuts) pairs tried in addition to the sampled ones
pub fn check_prefixes_at(full: &[u8], opt: Opt, prop: &str, rng: &mut StdRng, nprefix: usize, targeted: &[(usize, Vec<usize>)], rep: &mut Report, trace: &mut Option<Vec<String>>) {
    let e = expect_lzma(full, opt, None);
    if e.v != Exp::Ok {
        return;
    }
    let hl = opt.header_len();
    let (p, dict, field, _) = refdec::parse_header(full, hl == 13).unwrap();
    let size = size_in_effect(opt, field);
    let r = refdec::decode(&full[hl..], p, dict, size, None).unwrap();
    // cumulative output after each symbol
    let mut co = vec![0usize];
    for c in &r.costs {
        co.push(co.last().unwrap() + c.out as usize);
    }
    let mut plens: Vec<(usize, Option<Vec<usize>>)> = (0..nprefix).map(|_| (rng.gen_range(0..=full.len()), None)).collect();
    if nprefix > 0 {
        for x in [0, 1, hl - 1, hl, hl + 4, hl + 5, hl + 6, full.len().saturating_sub(1), full.len()] {
            plens.push((x, None));
        }
    }
    for (pl, cu) in targeted {
        plens.push((*pl, Some(cu.clone())));
    }
    for (plen, fixed_cuts) in plens {
        let plen = plen.min(full.len());
        let data = &full[..plen];
        let cuts: Vec<usize> = match fixed_cuts {
            Some(c) => c,
            None => {
                let k = rng.gen_range(0..5);
                let mut c: Vec<usize> = (0..k).map(|_| rng.gen_range(0..=plen)).collect();
                c.sort();
                c
            }
        };
        let c = StreamCase {
            data_hex: hex(data),
            opt,
            memlimit: None,
            allow_incomplete: true,
            cuts,
            origin: "prefix".into(),
            mode: "c15".into(),
            extra_writes: vec![],
            sink_fail: vec![],
        };
        let t = run_traced(&c, Some(&e.out), false);
        let mut vs: Vec<String> = t.problems.clone();
        if t.verdict == Verdict::Panic {
            vs.push(format!("panic: {}", t.msg));
        } else if plen >= hl + 5 {
            if t.verdict != Verdict::Ok {
                vs.push(format!("finish failed on a {}-byte prefix that contains header and preamble: {}", plen, t.msg));
            } else {
                if !is_prefix(&t.out, &e.out) {
                    vs.push("output returned by finish is not a prefix of the complete output".into());
                }
                // symbols fully inside the first plen - 64 bytes must have been produced
                if plen > 64 {
                    let lim = plen - 64;
                    let mut i = 0;
                    while i < r.cum_bytes.len() && hl + r.cum_bytes[i] <= lim {
                        i += 1;
                    }
                    if t.out.len() < co[i] {
                        vs.push(format!(
                            "after {} input bytes only {} output bytes exist, but the symbols ending before byte {} already determine {}",
                            plen,
                            t.out.len(),
                            lim,
                            co[i]
                        ));
                    }
                }
            }
        }
        rep.eval(hash_of(&(c.data_hex.clone(), &c.cuts)), plen > hl);
        if let Some(tr) = trace.as_mut() {
            if !t.events.is_empty() && t.verdict != Verdict::Panic {
                tr.push(json!({"ev": "Reset", "sd": shape_of(data, opt, None, true)}).to_string());
                for ev in &t.events {
                    tr.push(ev.to_string());
                }
                rep.count("traced_runs");
                rep.add("trace_events", t.events.len() as u64 + 1);
            }
        }
        if !vs.is_empty() {
            let mut cj = serde_json::to_value(&c).unwrap();
            cj["kind"] = json!("stream");
            cj["full_hex"] = json!(hex(full));
            rep.violation(prop, vs.join("; "), cj);
        }
    }
}

// ---------------------------------------------------------------- generators

pub struct GenStream {
    pub data: Vec<u8>,
    pub opt: Opt,
    pub origin: String,
    /// symbol boundaries (absolute byte offsets), for adversarial cuts
    pub bounds: Vec<usize>,
}

/// A valid .lzma stream from a random spec walk.
pub fn gen_valid(rng: &mut StdRng, nsyms: usize, which: usize) -> GenStream {
    let props = match which % 4 {
        0 => Props { lc: 3, lp: 0, pb: 2 },
        1 => Props { lc: 0, lp: 2, pb: 0 },
        2 => Props { lc: 8, lp: 4, pb: 4 },
        _ => Props { lc: rng.gen_range(0..=8), lp: rng.gen_range(0..=4), pb: rng.gen_range(0..=4) },
    };
    let w = WalkCfg { nsyms, props, max_dist: 4096, lit_alphabet: if which % 3 == 0 { 4 } else { 256 } };
    let mut prog = random_walk(rng, &w);
    let style = which % 5;
    // 0: marker, header says unknown; 1: size in header; 2: size + marker absent, ReadHeaderButUseProvided
    // 3: 5-byte header, UseProvided(Some); 4: 5-byte header, UseProvided(None) + marker
    let enc0 = coding::encode_program(&prog, props);
    let n = enc0.out.len() as u64;
    let (opt, field, marker) = match style {
        0 => (Opt::ReadFromHeader, Some(u64::MAX), true),
        1 => (Opt::ReadFromHeader, Some(n), false),
        2 => (Opt::ReadHeaderButUseProvided { n: Some(n) }, Some(n + 7), false),
        3 => (Opt::UseProvided { n: Some(n) }, None, false),
        _ => (Opt::UseProvided { n: None }, None, true),
    };
    if marker {
        prog.push(Sym::Eos);
    }
    let enc = coding::encode_program(&prog, props);
    let mut data = lzma_header(props, [0u32, 4096, 1 << 16][which % 3], field);
    let hl = data.len();
    data.extend_from_slice(&enc.payload);
    let mut bounds = vec![];
    let mut cb = hl + 5;
    for c in &enc.costs {
        cb += c.bytes as usize;
        bounds.push(cb);
    }
    GenStream { data, opt, origin: format!("walk/{}syms/style{}", nsyms, style), bounds }
}

/// A valid stream whose end marker is as expensive as valid symbols get without gigabytes of history:
/// every adaptive context on the marker's path is first trained towards the opposite bit, deepest
/// context first (a context only moves when it is used), with pb = 4 so that the marker's
/// is_match[state 0][pos_state] can be trained separately from the trainers' own contexts.
/// Returns the stream and the byte cost of the marker.
pub fn gen_expensive_eos(rng: &mut StdRng, reps: usize, far: bool) -> (GenStream, u32) {
    let p = Props { lc: 0, lp: 0, pb: 4 };
    let pst: usize = 5; // pos_state at which the marker will be coded
    let mut cs = coding::CS::default();
    let mut prog: Vec<Sym> = vec![];
    let mut push = |cs: &mut coding::CS, prog: &mut Vec<Sym>, s: Sym| {
        assert!(cs.valid(&s), "trainer produced an invalid symbol {:?} at {}", s, cs.out.len());
        cs.apply(&s);
        prog.push(s);
    };
    // history to copy from
    for i in 0..300usize {
        push(&mut cs, &mut prog, Sym::Lit { b: (i * 7 % 251) as u8 });
    }
    // go to pos_state `pst` with a filler MATCH (keeps the state >= 7 so that is_match[0][*] is not used)
    let align = |cs: &mut coding::CS, prog: &mut Vec<Sym>, push: &mut dyn FnMut(&mut coding::CS, &mut Vec<Sym>, Sym)| {
        let cur = cs.out.len() % 16;
        let mut f = (pst + 16 - cur) % 16;
        if f == 1 {
            f = 17;
        }
        if f >= 2 {
            push(cs, prog, Sym::Match { d: 3, n: f as u32 });
        }
    };
    // Phase C (far): position-slot tree of length state 0, node "1": slots 32..47 need distances >= 65536
    // (first: these trainers push the root of that tree the wrong way, phase B repairs it)
    if far {
        while cs.out.len() < 70000 {
            push(&mut cs, &mut prog, Sym::Match { d: 1, n: 273 });
        }
        for k in 0..reps {
            if cs.out.len() % 16 == pst {
                push(&mut cs, &mut prog, Sym::Lit { b: 1 });
            }
            push(&mut cs, &mut prog, Sym::Match { d: 65537 + (k as u64 % 50) * 16, n: 2 });
        }
    }
    // Phase B: align tree (reverse), path 1111: nodes 15, 7, 3, 1 trained with low distance bits 0111, 0011, 0001, 0000
    // (length 2 at a pos_state other than pst, so that the low length tree of pst is left alone)
    for low in [7u64, 3, 1, 0] {
        for k in 0..reps {
            if cs.out.len() % 16 == pst {
                push(&mut cs, &mut prog, Sym::Lit { b: 1 });
            }
            let d0 = 128 + 16 * (k as u64 % 8) + low; // slot 14/15: 3 direct bits + align
            push(&mut cs, &mut prog, Sym::Match { d: d0 + 1, n: 2 });
        }
    }
    // Phase A: length low-tree at pos_state pst, path 000: train "00"->1 (len 3), "0"->1 (len 4), root->1 (len 6)
    for n in [3u32, 4, 6] {
        for _ in 0..reps {
            align(&mut cs, &mut prog, &mut push);
            push(&mut cs, &mut prog, Sym::Match { d: 2, n });
        }
    }
    // Phase D: len.choice -> 1 with long matches (length state 3, small distances: no align bits)
    for _ in 0..reps {
        push(&mut cs, &mut prog, Sym::Match { d: 5, n: 40 });
    }
    // Phase E: is_rep[state 0] -> 1: three literals (state 7 -> 4 -> 1 -> 0), then a rep match, never at pos_state pst
    for _ in 0..reps {
        for _ in 0..3 {
            push(&mut cs, &mut prog, Sym::Lit { b: rng.gen() });
        }
        if cs.out.len() % 16 == pst {
            push(&mut cs, &mut prog, Sym::Lit { b: rng.gen() });
        }
        push(&mut cs, &mut prog, Sym::Rep { r: 0, n: 2 });
    }
    // Phase F: is_match[0][pst] -> 0 with literals in state 0 (all pos_states get trained, harmless)
    for _ in 0..(16 * reps + 3) {
        push(&mut cs, &mut prog, Sym::Lit { b: rng.gen() });
    }
    while cs.out.len() % 16 != pst {
        push(&mut cs, &mut prog, Sym::Lit { b: rng.gen() });
    }
    assert_eq!(cs.st, 0);
    prog.push(Sym::Eos);
    if std::env::var("LZVERIF_DEBUG_EOS").is_ok() {
        // per-decision cost of the marker in bits
        let mut c2 = coding::CS::default();
        let mut probs = coding::Probs::default();
        let mut enc = crate::kernel::RangeEnc::new();
        for s in &prog[..prog.len() - 1] {
            let d = c2.decisions(s, p);
            coding::encode_decs(&mut enc, &mut probs, &d);
            c2.apply(s);
        }
        for d in c2.decisions(&Sym::Eos, p) {
            let pr = *probs.get(d.ctx) as f64 / 2048.0;
            let pb = if d.b { 1.0 - pr } else { pr };
            eprintln!("  {:?} bit {} p0={:.3} cost {:.2} bits", d.ctx, d.b as u8, pr, -pb.log2());
        }
    }
    let enc = coding::encode_program(&prog, p);
    let cost = enc.costs.last().unwrap().bytes;
    let mut data = lzma_header(p, 1 << 20, Some(u64::MAX));
    let hl = data.len();
    data.extend_from_slice(&enc.payload);
    let mut bounds = vec![];
    let mut cb = hl + 5;
    for c in &enc.costs {
        cb += c.bytes as usize;
        bounds.push(cb);
    }
    (GenStream { data, opt: Opt::ReadFromHeader, origin: format!("expensive-eos/{}B", cost), bounds }, cost)
}

/// Like gen_expensive_eos, but the target is an ordinary long match at a distance of about 1 MiB
/// (8 trained bits of the high length tree + 15 direct bits), FOLLOWED by more symbols: the expensive
/// symbol sits in the middle of the stream.  Returns (stream, cost of the target, index of the target symbol).
pub fn gen_expensive_match(rng: &mut StdRng, reps: usize) -> (GenStream, u32, usize) {
    let p = Props { lc: 0, lp: 0, pb: 4 };
    let pst: usize = 9;
    let v: u32 = 0b1010_0110;
    let mut cs = coding::CS::default();
    let mut prog: Vec<Sym> = vec![];
    let mut push = |cs: &mut coding::CS, prog: &mut Vec<Sym>, s: Sym| {
        assert!(cs.valid(&s), "trainer produced an invalid symbol {:?} at {}", s, cs.out.len());
        cs.apply(&s);
        prog.push(s);
    };
    for i in 0..64usize {
        push(&mut cs, &mut prog, Sym::Lit { b: (i * 11 % 251) as u8 });
    }
    // history of a bit more than 1 MiB
    while cs.out.len() < (1 << 20) + 5000 {
        push(&mut cs, &mut prog, Sym::Match { d: 64, n: 273 });
    }
    let off_pst = |cs: &mut coding::CS, prog: &mut Vec<Sym>, push: &mut dyn FnMut(&mut coding::CS, &mut Vec<Sym>, Sym)| {
        if cs.out.len() % 16 == pst {
            push(cs, prog, Sym::Match { d: 3, n: 2 });
        }
    };
    // align tree, path 1111 (deepest node first)
    for low in [7u64, 3, 1, 0] {
        for k in 0..reps {
            off_pst(&mut cs, &mut prog, &mut push);
            push(&mut cs, &mut prog, Sym::Match { d: 128 + 16 * (k as u64 % 8) + low + 1, n: 2 });
        }
    }
    // high length tree, path of v, deepest node first; small distances train posslot[3]'s root towards 0
    for k in 0..8u32 {
        for _ in 0..reps {
            push(&mut cs, &mut prog, Sym::Match { d: 5, n: 18 + (v ^ (1 << k)) });
        }
    }
    // choice2 -> 0 (lengths 10..17), then choice -> 0 (short lengths)
    for _ in 0..reps {
        push(&mut cs, &mut prog, Sym::Match { d: 5, n: 12 });
    }
    for _ in 0..reps {
        off_pst(&mut cs, &mut prog, &mut push);
        push(&mut cs, &mut prog, Sym::Match { d: 2, n: 3 });
    }
    // is_rep[0] -> 1
    for _ in 0..reps {
        for _ in 0..3 {
            push(&mut cs, &mut prog, Sym::Lit { b: rng.gen() });
        }
        if cs.out.len() % 16 == pst {
            push(&mut cs, &mut prog, Sym::Lit { b: rng.gen() });
        }
        push(&mut cs, &mut prog, Sym::Rep { r: 0, n: 2 });
    }
    // is_match[0][pst] -> 0
    for _ in 0..(16 * reps + 3) {
        push(&mut cs, &mut prog, Sym::Lit { b: rng.gen() });
    }
    while cs.out.len() % 16 != pst {
        push(&mut cs, &mut prog, Sym::Lit { b: rng.gen() });
    }
    assert_eq!(cs.st, 0);
    let target_idx = prog.len();
    push(&mut cs, &mut prog, Sym::Match { d: (1 << 20) + 15 + 16 * 37 + 1, n: 18 + v });
    for b in [1u8, 2, 3] {
        push(&mut cs, &mut prog, Sym::Lit { b });
    }
    push(&mut cs, &mut prog, Sym::Rep { r: 0, n: 7 });
    prog.push(Sym::Eos);
    let enc = coding::encode_program(&prog, p);
    let cost = enc.costs[target_idx].bytes;
    let mut data = lzma_header(p, 1 << 22, Some(u64::MAX));
    let hl = data.len();
    data.extend_from_slice(&enc.payload);
    let mut bounds = vec![];
    let mut cb = hl + 5;
    for c in &enc.costs {
        cb += c.bytes as usize;
        bounds.push(cb);
    }
    (GenStream { data, opt: Opt::ReadFromHeader, origin: format!("expensive-match/{}B", cost), bounds }, cost, target_idx)
}

pub fn gen_cuts(rng: &mut StdRng, g: &GenStream, strategy: usize) -> Vec<usize> {
    let n = g.data.len();
    let mut cuts: Vec<usize> = match strategy % 6 {
        0 => (0..rng.gen_range(0..6)).map(|_| rng.gen_range(0..=n)).collect(),
        1 => (1..n).collect(), // single bytes
        2 => {
            // around header / preamble boundaries
            let mut v: Vec<usize> = [1, 4, 5, 6, 9, 10, 12, 13, 14, 17, 18, 19, 20].iter().cloned().filter(|_| rng.gen_bool(0.4)).collect();
            v.extend((0..rng.gen_range(0..3)).map(|_| rng.gen_range(0..=n)));
            v
        }
        3 => {
            // inside the most expensive symbols
            let mut v = vec![];
            let mut idx: Vec<usize> = (1..g.bounds.len()).collect();
            idx.sort_by_key(|&i| std::cmp::Reverse(g.bounds[i] - g.bounds[i - 1]));
            for &i in idx.iter().take(3) {
                let (a, b) = (g.bounds[i - 1], g.bounds[i]);
                if b > a {
                    v.push(rng.gen_range(a..=b));
                    v.push(rng.gen_range(a..=b));
                }
            }
            v
        }
        4 => {
            // regular small pieces (with empty pieces sprinkled in)
            let step = rng.gen_range(2..24);
            let mut v: Vec<usize> = (0..n).step_by(step).collect();
            if n > 0 {
                let dup = v[rng.gen_range(0..v.len())];
                v.push(dup);
            }
            v
        }
        _ => vec![rng.gen_range(0..=n.min(30))],
    };
    cuts.sort();
    cuts
}

pub fn mutate(rng: &mut StdRng, g: &GenStream, how: usize) -> (Vec<u8>, String) {
    let mut d = g.data.clone();
    match how % 7 {
        0 => (d, "valid".into()),
        1 => {
            let k = rng.gen_range(0..d.len());
            d.truncate(k);
            (d, format!("truncated@{}", k))
        }
        2 => {
            let hl = g.opt.header_len();
            let k = rng.gen_range(hl.min(d.len() - 1)..d.len());
            d[k] ^= 1 << rng.gen_range(0..8);
            (d, format!("bitflip@{}", k))
        }
        3 => {
            let n = rng.gen_range(1..30);
            for _ in 0..n {
                d.push(rng.gen());
            }
            (d, format!("trailing+{}", n))
        }
        4 => {
            let n = rng.gen_range(1..4);
            for _ in 0..n {
                d.push(0);
            }
            (d, format!("trailing-zeros+{}", n))
        }
        6 => {
            let n = rng.gen_range(70_000..100_000);
            for _ in 0..n {
                d.push(rng.gen());
            }
            (d, format!("trailing+{}", n))
        }
        _ => {
            // corrupt a header field
            let k = rng.gen_range(0..g.opt.header_len());
            d[k] = rng.gen();
            (d, format!("header-byte@{}", k))
        }
    }
}

/// Tiny streams (0..3 symbols; 10..30 bytes in all) under every option style, in EVERY composition into at most
/// three write calls - including the single write - optionally preceded / followed by empty writes.
/// This is the composition space MC_Stream explores exhaustively for small totals, instantiated on real bytes.
pub fn tiny_streams(prop: &str, mode: &str, rep: &mut Report) {
    let p = Props { lc: 3, lp: 0, pb: 2 };
    let progs: Vec<Vec<Sym>> = vec![
        vec![],
        vec![Sym::Lit { b: b'H' }],
        vec![Sym::Lit { b: b'H' }, Sym::Lit { b: b'i' }, Sym::Lit { b: b'!' }],
        vec![Sym::Lit { b: 0 }, Sym::Rep { r: 0, n: 17 }],
        vec![Sym::Lit { b: b'a' }, Sym::Lit { b: b'b' }, Sym::Match { d: 2, n: 6 }],
    ];
    for (pi, prog) in progs.iter().enumerate() {
        let n = coding::encode_program(prog, p).out.len() as u64;
        for style in 0..5 {
            let (opt, field, marker) = match style {
                0 => (Opt::ReadFromHeader, Some(u64::MAX), true),
                1 => (Opt::ReadFromHeader, Some(n), false),
                2 => (Opt::ReadHeaderButUseProvided { n: Some(n) }, Some(n + 7), false),
                3 => (Opt::UseProvided { n: Some(n) }, None, false),
                _ => (Opt::UseProvided { n: None }, None, true),
            };
            let mut pr = prog.clone();
            if marker {
                pr.push(if (pi + style) % 3 == 0 { Sym::Eosn { n: [5u32, 273, 18][pi % 3] } } else { Sym::Eos });
            }
            let enc = coding::encode_program(&pr, p);
            let mut data = lzma_header(p, 4096, field);
            data.extend_from_slice(&enc.payload);
            let len = data.len();
            let one = api::lzma_bytes(&data, &api::options(opt, None, false));
            let dh = hex(&data);
            let mut cutsets: Vec<Vec<usize>> = vec![vec![], vec![0], vec![len], vec![0, 0, len, len]];
            for a in 1..len {
                cutsets.push(vec![a]);
                for b in [a, a + 1, a + 2, a + 5, len - 1] {
                    if b >= a && b < len {
                        cutsets.push(vec![a, b]);
                    }
                }
            }
            for cuts in cutsets {
                let c = StreamCase { data_hex: dh.clone(), opt, memlimit: None, allow_incomplete: false, cuts, origin: format!("tiny#{}style{}", pi, style), mode: mode.into(), extra_writes: vec![], sink_fail: vec![] };
                check_against_oneshot(&c, &data, &one, prop, rep);
            }
        }
    }
    rep.sample(json!({"origin": "tiny_streams", "what": "0..3-symbol streams x 5 option styles x every composition into <= 3 writes (single write, leading / trailing empty writes included)"}));
}

pub fn run_c05(prop: &str, seed: u64, nstreams: usize, nsyms: usize, trace_path: Option<&str>, rep: &mut Report) {
    let mut rng = StdRng::seed_from_u64(seed ^ 0x57ea);
    let mut trace: Option<Vec<String>> = trace_path.map(|_| vec![]);
    early_errors(prop, "c05", seed, rep, &mut trace);
    tiny_streams(prop, "c05", rep);
    // several window lengths of output with a 4 KiB dictionary: what the decoder hands to the sink between writes
    // and at each wrap of the circular window must add up to the one-shot output under every chunking
    {
        let props = Props { lc: 3, lp: 0, pb: 2 };
        let mut prog: Vec<Sym> = vec![];
        let mut total = 0usize;
        let mut k = 0u32;
        while total < 14000 {
            if k % 7 == 6 {
                let n = 2 + (k % 40);
                prog.push(Sym::Match { d: 1 + (k as u64 % 900).min(total as u64 - 1), n });
                total += n as usize;
            } else {
                prog.push(Sym::Lit { b: 0x30 + ((k * 11 + k / 17) % 75) as u8 });
                total += 1;
            }
            k += 1;
        }
        prog.push(Sym::Eos);
        let enc = coding::encode_program(&prog, props);
        let mut data = lzma_header(props, 4096, Some(u64::MAX));
        data.extend_from_slice(&enc.payload);
        let one = api::lzma_bytes(&data, &api::options(Opt::ReadFromHeader, None, false));
        let n = data.len();
        let dh = hex(&data);
        let mut cutsets: Vec<Vec<usize>> = vec![vec![], vec![n / 2], vec![n / 3, 2 * n / 3], (1..20).map(|i| i * n / 20).collect(), (0..n).step_by(97).collect(), (0..n).step_by(1000).collect()];
        for _ in 0..6 {
            let mut c: Vec<usize> = (0..rng.gen_range(2..9)).map(|_| rng.gen_range(0..n)).collect();
            c.sort();
            cutsets.push(c);
        }
        for cuts in cutsets {
            let c = StreamCase { data_hex: dh.clone(), opt: Opt::ReadFromHeader, memlimit: None, allow_incomplete: false, cuts, origin: "window-wrap-stream".into(), mode: "c05".into(), extra_writes: vec![], sink_fail: vec![] };
            check_against_oneshot(&c, &data, &one, prop, rep);
        }
    }
    // worst-case symbol: every cut position inside the most expensive symbol we can construct, and every
    // pair (cut, cut + k): the symbol is then completed through the partial input buffer
    for far in [false, true] {
        let (g, cost) = gen_expensive_eos(&mut rng, 170, far);
        rep.add(if far { "expensive_symbol_bytes_far" } else { "expensive_symbol_bytes" }, cost as u64);
        let n = g.data.len();
        let start = n - cost as usize;
        let one = api::lzma_bytes(&g.data, &api::options(g.opt, None, false));
        let dh = hex(&g.data);
        for a in 0..=(cost as usize) {
            for k in [0usize, 1, 2, 5, 19, 20] {
                let mut cuts = vec![start.saturating_sub(3), start + a, (start + a + k).min(n)];
                cuts.sort();
                let c = StreamCase { data_hex: dh.clone(), opt: g.opt, memlimit: None, allow_incomplete: false, cuts, origin: g.origin.clone(), mode: "c05".into(), extra_writes: vec![], sink_fail: vec![] };
                check_against_oneshot(&c, &g.data, &one, prop, rep);
            }
        }
        if rep.samples.len() < 6 {
            rep.sample(json!({"origin": g.origin, "bytes": n, "marker_cost_bytes": cost, "cuts": "every offset inside the marker x second cut {0,1,2,5,19,20} bytes later"}));
        }
    }
    {
        let (g, cost, ti) = gen_expensive_match(&mut rng, 170);
        rep.add("expensive_match_bytes", cost as u64);
        let end = g.bounds[ti];
        let start = end - cost as usize;
        let n = g.data.len();
        let one = api::lzma_bytes(&g.data, &api::options(g.opt, None, false));
        let dh = hex(&g.data);
        for a in 0..=(cost as usize) {
            for k in [0usize, 1, 3, 19, 20, 21] {
                let mut cuts = vec![start.saturating_sub(2), start + a, (start + a + k).min(n)];
                cuts.sort();
                let c = StreamCase { data_hex: dh.clone(), opt: g.opt, memlimit: None, allow_incomplete: false, cuts, origin: g.origin.clone(), mode: "c05".into(), extra_writes: vec![], sink_fail: vec![] };
                check_against_oneshot(&c, &g.data, &one, prop, rep);
            }
        }
        rep.sample(json!({"origin": g.origin, "bytes": n, "target_cost_bytes": cost, "cuts": "every offset inside the expensive match x second cut {0,1,3,19,20,21} bytes later"}));
    }
    for i in 0..nstreams {
        let ns = if i % 7 == 0 { nsyms * 4 } else { 1 + rng.gen_range(0..nsyms) };
        let g = gen_valid(&mut rng, ns, i);
        for how in 0..6 {
            let (data, mname) = mutate(&mut rng, &g, how);
            for strat in 0..3 {
                let gg = GenStream { data: data.clone(), opt: g.opt, origin: String::new(), bounds: g.bounds.clone() };
                let cuts = gen_cuts(&mut rng, &gg, (i + how + strat * 2) % 6);
                // keep single-byte chunkings for short inputs only (trace size)
                if cuts.len() > 600 {
                    continue;
                }
                // "for every decode option": also under memory limits (none, below / at / above what the stream needs)
                let ml: Option<u64> = match (i + how + strat) % 5 {
                    0 => Some(rng.gen_range(0..200)),
                    1 => Some(rng.gen_range(200..6000)),
                    2 => Some(1 << 30),
                    _ => None,
                };
                let c = StreamCase {
                    data_hex: hex(&data),
                    opt: g.opt,
                    memlimit: ml,
                    allow_incomplete: false,
                    cuts,
                    origin: format!("{}/{}/memlimit={:?}", g.origin, mname, ml),
                    mode: "c05".into(),
                    extra_writes: vec![],
            sink_fail: vec![],
                };
                // only trace moderately sized runs (TLC speed)
                let mut tr = if data.len() < 3000 { trace.take() } else { None };
                let ok = check_case(&c, prop, rep, &mut tr);
                if data.len() < 3000 {
                    trace = tr;
                }
                if ok && rep.samples.len() < 4 && how == strat {
                    rep.sample(json!({"origin": c.origin, "opt": c.opt, "bytes": data.len(), "cuts": &c.cuts[..c.cuts.len().min(12)]}));
                }
            }
        }
    }
    if let (Some(p), Some(t)) = (trace_path, trace) {
        std::fs::write(p, t.join("\n") + "\n").expect("write trace");
        rep.traces.push(p.to_string());
    }
}

pub fn run_c15(prop: &str, seed: u64, nstreams: usize, nsyms: usize, trace_path: Option<&str>, rep: &mut Report) {
    let mut rng = StdRng::seed_from_u64(seed ^ 0xc15);
    let mut trace: Option<Vec<String>> = trace_path.map(|_| vec![]);
    for i in 0..nstreams {
        let ns0 = 1 + rng.gen_range(0..nsyms);
        let g = gen_valid(&mut rng, ns0, i);
        check_prefixes(&g.data, g.opt, prop, &mut rng, 12, rep, &mut trace);
        // "all prefixes": every prefix of the small streams in one write (a cut inside a symbol on which the dry run
        // and the real run need different numbers of bytes is a matter of one prefix length in several hundred)
        if g.data.len() <= 400 {
            let mut none = None;
            let t: Vec<(usize, Vec<usize>)> = (g.opt.header_len() + 5..=g.data.len()).map(|pl| (pl, vec![])).collect();
            check_prefixes_at(&g.data, g.opt, prop, &mut rng, 0, &t, rep, &mut none);
        }
        if rep.samples.len() < 3 {
            rep.sample(json!({"origin": g.origin, "bytes": g.data.len(), "prefixes": 21, "allow_incomplete": true}));
        }
    }
    // output of several window lengths with a 4 KiB dictionary: literals right after each wrap of the circular
    // window take their context from the window's last byte (prefixes cut before, at and after the wraps)
    {
        let mut none = None;
        let props = Props { lc: 3, lp: 0, pb: 2 };
        let mut prog: Vec<Sym> = vec![];
        let mut total = 0usize;
        let mut k = 0u32;
        while total < 13000 {
            if k % 9 == 8 {
                prog.push(Sym::Match { d: 3, n: 2 + (k % 5) });
                total += 2 + (k % 5) as usize;
            } else {
                prog.push(Sym::Lit { b: 0x61 + ((k * 7 + k / 13) % 90) as u8 });
                total += 1;
            }
            k += 1;
        }
        let enc = coding::encode_program(&prog, props);
        let mut data = lzma_header(props, 4096, Some(enc.out.len() as u64));
        data.extend_from_slice(&enc.payload);
        check_prefixes(&data, Opt::ReadFromHeader, prop, &mut rng, 10, rep, &mut none);
        rep.count("window_wrap_stream");
    }
    // a long run of one highly probable symbol: for most prefixes that end inside it the range decoder's code
    // register is exactly 0 - the value it also has when a stream is complete - although the declared size is far
    // from reached.  EVERY prefix, written in one call and in two.
    {
        let mut none = None;
        let props = Props { lc: 3, lp: 0, pb: 2 };
        let mut prog: Vec<Sym> = (0..40u32).map(|k| Sym::Lit { b: 0x41 + (k * 5 % 50) as u8 }).collect();
        prog.extend((0..6000).map(|_| Sym::Lit { b: 0 }));
        prog.extend((0..40u32).map(|k| Sym::Lit { b: 0x61 + (k * 3 % 20) as u8 }));
        let enc = coding::encode_program(&prog, props);
        let mut data = lzma_header(props, 4096, Some(enc.out.len() as u64));
        data.extend_from_slice(&enc.payload);
        let mut t: Vec<(usize, Vec<usize>)> = vec![];
        for plen in 18..=data.len() {
            t.push((plen, vec![]));
            if plen % 3 == 0 {
                t.push((plen, vec![plen - 1 - plen % 7]));
            }
        }
        check_prefixes_at(&data, Opt::ReadFromHeader, prop, &mut rng, 0, &t, rep, &mut none);
        rep.count("zero_run_stream");
    }
    // worst-case symbols: prefixes ending inside / just after the most expensive symbols we can build, with a cut
    // that leaves 1..cost-1 of their bytes parked in the partial input buffer
    {
        let mut none = None;
        let (g, cost) = gen_expensive_eos(&mut rng, 170, false);
        let n = g.data.len();
        let start = n - cost as usize;
        let mut t: Vec<(usize, Vec<usize>)> = vec![];
        for plen in (start + 1)..=n {
            for k in [1usize, 3, 9, 10, 11, 12, 19] {
                if plen > k {
                    t.push((plen, vec![plen - k]));
                }
            }
        }
        check_prefixes_at(&g.data, g.opt, prop, &mut rng, 0, &t, rep, &mut none);
        let (g, cost, ti) = gen_expensive_match(&mut rng, 170);
        let end = g.bounds[ti];
        let start = end - cost as usize;
        let mut t: Vec<(usize, Vec<usize>)> = vec![];
        for plen in [start + 1, start + 5, start + 10, start + 11, end - 1, end, end + 1, end + 7] {
            for k in [1usize, 9, 10, 11, 14, 19] {
                t.push((plen, vec![plen - k]));
            }
        }
        check_prefixes_at(&g.data, g.opt, prop, &mut rng, 0, &t, rep, &mut none);
        rep.add("expensive_symbol_bytes", cost as u64);
    }
    if let (Some(p), Some(t)) = (trace_path, trace) {
        std::fs::write(p, t.join("\n") + "\n").expect("write trace");
        rep.traces.push(p.to_string());
    }
}

/// Streams whose FIRST symbols are already an error (copy from an empty window, bad matched literal),
/// under all three header options, with the header / preamble split over the first writes so that the
/// failing bytes are still in the header staging buffer when they are decoded.
pub fn early_errors(prop: &str, mode: &str, seed: u64, rep: &mut Report, trace: &mut Option<Vec<String>>) {
    let mut rng = StdRng::seed_from_u64(seed ^ 0xea71);
    let p = Props { lc: 3, lp: 0, pb: 2 };
    let progs: Vec<Vec<Sym>> = vec![
        vec![Sym::Match { d: 5, n: 4 }, Sym::Lit { b: 1 }, Sym::Lit { b: 2 }],
        vec![Sym::Lit { b: 9 }, Sym::Match { d: 7, n: 3 }, Sym::Lit { b: 2 }],
        vec![Sym::Lit { b: 9 }, Sym::Lit { b: 8 }, Sym::Rep { r: 2, n: 2 }, Sym::Match { d: 200, n: 5 }, Sym::Lit { b: 1 }],
        vec![Sym::Short, Sym::Lit { b: 7 }],
    ];
    for (pi, prog) in progs.iter().enumerate() {
        // encode with fabricated zeros so that the stream is long enough to have bytes after the failure
        let mut cs = coding::CS::default();
        let mut probs = coding::Probs::default();
        let mut enc = crate::kernel::RangeEnc::new();
        for s in prog {
            let d = if cs.valid(s) { cs.decisions(s, p) } else { coding::invalid_decisions(&cs, s, p) };
            coding::encode_decs(&mut enc, &mut probs, &d);
            if cs.valid(s) {
                cs.apply(s);
            } else {
                cs.out.push(0);
            }
        }
        for _ in 0..12 {
            let s = Sym::Lit { b: rng.gen() };
            let d = cs.decisions(&s, p);
            coding::encode_decs(&mut enc, &mut probs, &d);
            cs.apply(&s);
        }
        let payload = enc.finish();
        for (opt, field) in [(Opt::ReadFromHeader, Some(u64::MAX)), (Opt::ReadHeaderButUseProvided { n: Some(40) }, Some(3)), (Opt::UseProvided { n: Some(40) }, None), (Opt::UseProvided { n: None }, None)] {
            let mut data = lzma_header(p, 4096, field);
            data.extend_from_slice(&payload);
            let hl = opt.header_len() + 5;
            for first in [1usize, 3, hl - 1, hl, hl + 1, hl + 3, 17, 18, 19] {
                for second in [1usize, 2, 8, 40] {
                    let cuts = vec![first.min(data.len()), (first + second).min(data.len()), (first + second + 3).min(data.len())];
                    let c = StreamCase { data_hex: hex(&data), opt, memlimit: None, allow_incomplete: false, cuts, origin: format!("early-error#{}", pi), mode: mode.into(), extra_writes: vec![], sink_fail: vec![] };
                    check_case(&c, prop, rep, trace);
                }
            }
        }
    }
}

pub fn run_c16(prop: &str, seed: u64, nstreams: usize, nsyms: usize, trace_path: Option<&str>, rep: &mut Report) {
    let mut rng = StdRng::seed_from_u64(seed ^ 0xc16);
    let mut trace: Option<Vec<String>> = trace_path.map(|_| vec![]);
    early_errors(prop, "c16", seed, rep, &mut trace);
    for i in 0..nstreams {
        let ns0 = 1 + rng.gen_range(0..nsyms);
        let g = gen_valid(&mut rng, ns0, i);
        // (how >= 10: the same mutation with allow_incomplete set - a failed write latches the object under that
        // option like under any other)
        for how in [0usize, 2, 3, 5, 1, 6, 12, 15] {
            let inc = how >= 10;
            let how = how % 10;
            let (data, mname) = mutate(&mut rng, &g, how);
            let gg = GenStream { data: data.clone(), opt: g.opt, origin: String::new(), bounds: g.bounds.clone() };
            let cuts = gen_cuts(&mut rng, &gg, i + how);
            if cuts.len() > 400 {
                continue;
            }
            let extra: Vec<usize> = vec![];
            let c = StreamCase {
                data_hex: hex(&data),
                opt: g.opt,
                memlimit: None,
                allow_incomplete: inc,
                cuts,
                origin: format!("{}/{}{}", g.origin, mname, if inc { "/allow_incomplete" } else { "" }),
                mode: "c16".into(),
                extra_writes: extra,
                sink_fail: vec![],
            };
            let mut none = None;
            let ok = check_case(&c, prop, rep, if data.len() < 2000 { &mut trace } else { &mut none });
            if ok && rep.samples.len() < 4 {
                rep.sample(json!({"origin": c.origin, "bytes": data.len(), "extra_writes": c.extra_writes}));
            }
        }
    }
    // declared size falling strictly inside a copy, with more symbols after it: the stream is complete (and
    // wrong) at that copy; later writes must consume nothing and deliver nothing
    for i in 0..nstreams.max(4) {
        let props = [Props { lc: 3, lp: 0, pb: 2 }, Props { lc: 0, lp: 2, pb: 0 }, Props { lc: 1, lp: 1, pb: 4 }][i % 3];
        let mut prog = random_walk(&mut rng, &WalkCfg { nsyms: 3 + i % 9, props, max_dist: 64, lit_alphabet: 4 });
        if prog.is_empty() {
            continue;
        }
        let before = coding::encode_program(&prog, props).out.len() as u64;
        let n = 3 + (i % 11) as u32;
        prog.push(Sym::Match { d: 1 + (i as u64 % before.max(1)).min(before.saturating_sub(1)), n });
        let tail = random_walk(&mut rng, &WalkCfg { nsyms: 4 + i % 30, props, max_dist: 8, lit_alphabet: 200 });
        // the tail was generated for an empty history; keep only what is valid after the prefix
        let mut cs = coding::CS::default();
        for sy in &prog {
            if !cs.valid(sy) {
                break;
            }
            cs.apply(sy);
        }
        if cs.out.len() as u64 != before + n as u64 {
            continue;
        }
        for sy in tail {
            if cs.valid(&sy) {
                cs.apply(&sy);
                prog.push(sy);
            }
        }
        let sz = before + 1 + (i as u64 % (n as u64 - 1));
        let (opt, field) = match i % 3 {
            0 => (Opt::ReadFromHeader, Some(sz)),
            1 => (Opt::ReadHeaderButUseProvided { n: Some(sz) }, Some(u64::MAX)),
            _ => (Opt::UseProvided { n: Some(sz) }, None),
        };
        let enc = coding::encode_program(&prog, props);
        let mut data = lzma_header(props, 4096, field);
        data.extend_from_slice(&enc.payload);
        let gg = GenStream { data: data.clone(), opt, origin: String::new(), bounds: vec![] };
        let cuts = gen_cuts(&mut rng, &gg, i);
        let c = StreamCase { data_hex: hex(&data), opt, memlimit: None, allow_incomplete: i % 2 == 0, cuts, origin: format!("size-inside-copy/{}of{}", sz - before, n), mode: "c16".into(), extra_writes: vec![], sink_fail: vec![] };
        let mut none = None;
        check_case(&c, prop, rep, &mut none);
    }
    // declared size reached at a symbol boundary (in particular: size 0, reached before the first symbol) with
    // more symbols and an end marker after it: later writes consume nothing and the output stays as it is
    for i in 0..nstreams.max(6) {
        let props = [Props { lc: 3, lp: 0, pb: 2 }, Props { lc: 0, lp: 2, pb: 0 }][i % 2];
        let mut prog = random_walk(&mut rng, &WalkCfg { nsyms: 6 + i % 20, props, max_dist: 64, lit_alphabet: 200 });
        if prog.is_empty() {
            continue;
        }
        prog.push(Sym::Eos);
        let enc = coding::encode_program(&prog, props);
        // cumulative output after k symbols
        let mut cs = coding::CS::default();
        let mut cum = vec![0u64];
        for sy in &prog[..prog.len() - 1] {
            cs.apply(sy);
            cum.push(cs.out.len() as u64);
        }
        let k = if i % 2 == 0 { 0 } else { i % (cum.len() - 1) };
        let sz = cum[k];
        let (opt, field) = match i % 3 {
            0 => (Opt::ReadFromHeader, Some(sz)),
            1 => (Opt::ReadHeaderButUseProvided { n: Some(sz) }, Some(u64::MAX)),
            _ => (Opt::UseProvided { n: Some(sz) }, None),
        };
        let mut data = lzma_header(props, 4096, field);
        data.extend_from_slice(&enc.payload);
        let hl = opt.header_len();
        let gg = GenStream { data: data.clone(), opt, origin: String::new(), bounds: vec![] };
        for cuts in [gen_cuts(&mut rng, &gg, i), vec![hl + 5], vec![hl, hl + 5, hl + 6], (1..data.len()).collect::<Vec<usize>>()] {
            let cuts: Vec<usize> = cuts.into_iter().filter(|c| *c <= data.len()).collect();
            let c = StreamCase { data_hex: hex(&data), opt, memlimit: None, allow_incomplete: i % 4 == 3, cuts, origin: format!("size-{}-then-more-symbols", sz), mode: "c16".into(), extra_writes: vec![], sink_fail: vec![] };
            check_case(&c, prop, rep, &mut trace);
        }
    }
    // a write that fails because the SINK failed (the hand-over of a full window: its k-th write call returns an error
    // once, of kind Other or WouldBlock, and works again afterwards) is "a write that has returned an error" like any
    // other: the caller goes on writing in small pieces, nothing more may be consumed or delivered, finish fails
    for which in 0..3usize {
        let props = Props { lc: 3, lp: 0, pb: 2 };
        let mut prog: Vec<Sym> = vec![];
        let mut total = 0usize;
        let mut k = 0u32;
        while total < 13500 {
            if which == 2 && k >= 12 {
                // few symbols, long copies: a shape small enough for the recorded calls to be validated by TLC
                let n = 273 - (k % 7);
                prog.push(Sym::Match { d: 1 + (k as u64 % 11), n });
                total += n as usize;
            } else if which == 1 && k % 9 == 8 {
                prog.push(Sym::Match { d: 3, n: 2 + (k % 5) });
                total += 2 + (k % 5) as usize;
            } else {
                prog.push(Sym::Lit { b: 0x61 + ((k * 7 + k / 13) % 90) as u8 });
                total += 1;
            }
            k += 1;
        }
        prog.push(Sym::Eos);
        let enc = coding::encode_program(&prog, props);
        let mut data = lzma_header(props, 4096, Some(u64::MAX));
        data.extend_from_slice(&enc.payload);
        for failk in 1..=3usize {
            for kind in 0..2usize {
                for step in [1usize, 3, 7, 64, 1500] {
                    if (failk + kind + step + which) % 2 == 1 && step != 3 && which != 2 {
                        continue;
                    }
                    if which == 2 && step > 7 {
                        continue;
                    }
                    let cuts: Vec<usize> = (1..data.len()).filter(|x| x % step == 0).collect();
                    let c = StreamCase { data_hex: hex(&data), opt: Opt::ReadFromHeader, memlimit: None, allow_incomplete: false, cuts, origin: format!("sink-write#{}-fails-once-kind{}", failk, kind), mode: "c16".into(), extra_writes: vec![], sink_fail: vec![failk, kind] };
                    let mut none = None;
                    // (the runs with few calls are validated by TLC: the failing hand-over is an "errReal" symbol of the shape)
                    check_case(&c, prop, rep, if which == 2 { &mut trace } else { &mut none });
                }
            }
        }
    }
    // output of several window lengths with a 4 KiB dictionary ("no sequence of calls panics" includes the calls
    // during which the circular window wraps): literal-only, and literals mixed with short copies
    for which in 0..2 {
        let props = Props { lc: 3, lp: 0, pb: 2 };
        let mut prog: Vec<Sym> = vec![];
        let mut total = 0usize;
        let mut k = 0u32;
        while total < 8300 + which * 4500 {
            if which == 1 && k % 9 == 8 {
                prog.push(Sym::Match { d: 3, n: 2 + (k % 5) });
                total += 2 + (k % 5) as usize;
            } else {
                prog.push(Sym::Lit { b: 0x61 + ((k * 7 + k / 13) % 90) as u8 });
                total += 1;
            }
            k += 1;
        }
        let sized = which == 0;
        if !sized {
            prog.push(Sym::Eos);
        }
        let enc = coding::encode_program(&prog, props);
        let mut data = lzma_header(props, 4096, if sized { Some(enc.out.len() as u64) } else { Some(u64::MAX) });
        data.extend_from_slice(&enc.payload);
        let gg = GenStream { data: data.clone(), opt: Opt::ReadFromHeader, origin: String::new(), bounds: vec![] };
        for j in 0..3 {
            let cuts = if j == 0 { vec![] } else { gen_cuts(&mut rng, &gg, j + which) };
            if cuts.len() > 400 {
                continue;
            }
            let c = StreamCase { data_hex: hex(&data), opt: Opt::ReadFromHeader, memlimit: None, allow_incomplete: false, cuts, origin: "window-wrap-stream".into(), mode: "c16".into(), extra_writes: vec![], sink_fail: vec![] };
            let mut none = None;
            check_case(&c, prop, rep, &mut none);
        }
    }
    if let (Some(p), Some(t)) = (trace_path, trace) {
        std::fs::write(p, t.join("\n") + "\n").expect("write trace");
        rep.traces.push(p.to_string());
    }
}

pub fn replay_value(v: &Value, prop: &str, rep: &mut Report) {
    let c: StreamCase = serde_json::from_value(v.clone()).expect("stream case");
    if c.mode == "c15" {
        if let Some(fh) = v.get("full_hex").and_then(|x| x.as_str()) {
            let mut rng = StdRng::seed_from_u64(1);
            let mut none = None;
            check_prefixes(&unhex(fh), c.opt, prop, &mut rng, 40, rep, &mut none);
            return;
        }
    }
    let mut none = None;
    check_case(&c, prop, rep, &mut none);
}

#![allow(dead_code)]
//! lzverif — conformance harness binding the TLA+ specifications in /verif/spec to lzma-rs.
//! Invoked by /verif/bin/check; every subcommand writes a JSON report to --out.

mod api;
mod build;
mod coding;
mod d_carry;
mod d_enc;
mod d_io;
mod d_lzma;
mod d_lzma2;
mod d_rcsmall;
mod d_reader;
mod d_reuse;
mod d_stream;
mod d_symtrace;
mod d_total;
mod d_xz;
mod io;
mod kernel;
mod oracle;
mod refdec;
mod refxz;
mod report;

use report::Report;
use std::collections::HashMap;

#[global_allocator]
static GLOBAL: io::alloc::Counting = io::alloc::Counting;

pub struct Args {
    pub cmd: String,
    pub kv: HashMap<String, String>,
    pub pos: Vec<String>,
}

impl Args {
    pub fn get(&self, k: &str) -> Option<&str> {
        self.kv.get(k).map(|s| s.as_str())
    }
    pub fn num(&self, k: &str, d: u64) -> u64 {
        self.get(k).map(|s| s.parse().expect("number")).unwrap_or(d)
    }
    pub fn str(&self, k: &str, d: &str) -> String {
        self.get(k).unwrap_or(d).to_string()
    }
}

fn parse_args() -> Args {
    let mut it = std::env::args().skip(1);
    let cmd = it.next().unwrap_or_else(|| "help".into());
    let mut kv = HashMap::new();
    let mut pos = vec![];
    let v: Vec<String> = it.collect();
    let mut i = 0;
    while i < v.len() {
        if let Some(k) = v[i].strip_prefix("--") {
            if i + 1 < v.len() && !v[i + 1].starts_with("--") {
                kv.insert(k.to_string(), v[i + 1].clone());
                i += 2;
            } else {
                kv.insert(k.to_string(), "1".into());
                i += 1;
            }
        } else {
            pos.push(v[i].clone());
            i += 1;
        }
    }
    Args { cmd, kv, pos }
}

fn finish(rep: Report, a: &Args) {
    let j = rep.to_json();
    let s = serde_json::to_string_pretty(&j).unwrap();
    if let Some(o) = a.get("out") {
        std::fs::write(o, &s).expect("write report");
    } else {
        println!("{}", s);
    }
    eprintln!(
        "[lzverif] {}: {} evaluations, {} distinct non-trivial, {} violations, {} tool errors",
        rep.driver,
        rep.evaluations,
        rep.distinct.len(),
        rep.violations.len(),
        rep.tool_errors.len()
    );
}

fn main() {
    io::silence_panics();
    let a = parse_args();
    let prop = a.str("property", "C00");
    let seed = a.num("seed", 1);
    match a.cmd.as_str() {
        "lzma" => {
            let mut rep = Report::new("lzma");
            if let Some(p) = a.get("decoder-export") {
                d_lzma::replay_decoder_export(p, &prop, seed, a.num("limit", 20000) as usize, &mut rep);
            }
            if let Some(p) = a.get("coding-export") {
                d_lzma::replay_coding_export(p, &prop, seed, a.num("limit", 20000) as usize, &mut rep);
            }
            if let Some(p) = a.get("entry-points-export") {
                d_lzma::replay_entry_points(p, &prop, seed, a.num("ep-rounds", 1) as usize, &mut rep);
            }
            if let Some(p) = a.get("header-export") {
                d_lzma::replay_header_export(p, &prop, seed, &mut rep);
            }
            let om = a.num("options-matrix", 0) as usize;
            if om > 0 {
                d_lzma::options_matrix(&prop, seed, om, &mut rep);
            }
            let mm = a.num("memlimit-matrix", 0) as usize;
            if mm > 0 {
                d_lzma::memlimit_matrix(&prop, seed, mm, &mut rep);
            }
            let fp = a.num("fab-probes", 0) as usize;
            if fp > 0 {
                d_lzma::fab_probes(&prop, seed, fp, &mut rep);
            }
            let walks = a.num("walks", 0) as usize;
            if walks > 0 {
                d_lzma::walks(&prop, seed, walks, a.num("walk-syms", 400) as usize, &mut rep);
            }
            finish(rep, &a);
        }
        "stream" => {
            let mut rep = Report::new("stream");
            let n = a.num("streams", 20) as usize;
            let ns = a.num("syms", 60) as usize;
            let tr = a.get("trace");
            match a.str("mode", "c05").as_str() {
                "c05" => d_stream::run_c05(&prop, seed, n, ns, tr, &mut rep),
                "c15" => d_stream::run_c15(&prop, seed, n, ns, tr, &mut rep),
                "c16" => d_stream::run_c16(&prop, seed, n, ns, tr, &mut rep),
                m => panic!("mode {}", m),
            }
            finish(rep, &a);
        }
        "xz" => {
            let mut rep = Report::new("xz");
            if let Some(p) = a.get("export") {
                d_xz::replay_export(p, &prop, seed, a.num("limit", 50000) as usize, &mut rep);
            }
            if a.get("big-valid").is_some() {
                d_xz::big_valid(&prop, &mut rep);
                d_xz::varint_boundaries(&prop, &mut rep);
            }
            let nf = a.num("flip-files", 0) as usize;
            if nf > 0 {
                d_xz::flips(&prop, seed, nf, &mut rep);
            }
            finish(rep, &a);
        }
        "lzma2" => {
            let mut rep = Report::new("lzma2");
            if let Some(p) = a.get("export") {
                d_lzma2::replay_export(p, &prop, seed, a.num("limit", 60000) as usize, &mut rep);
            }
            if a.get("framing-extremes").is_some() {
                d_lzma2::framing_extremes(&prop, &mut rep);
            }
            if a.get("dict-reset-probes").is_some() {
                d_lzma2::dict_reset_probes(&prop, &mut rep);
            }
            let fw = a.num("fault-walks", 0) as usize;
            if fw > 0 {
                d_lzma2::fault_walks(&prop, seed, fw, &mut rep);
            }
            let w = a.num("walks", 0) as usize;
            if w > 0 {
                d_lzma2::walks(&prop, seed, w, &mut rep);
                d_lzma2::extremes(&prop, seed, &mut rep);
            }
            finish(rep, &a);
        }
        "io" => {
            let mut rep = Report::new("io");
            d_io::run(&prop, seed, a.num("inputs", 4) as usize, a.get("trace"), a.get("export"), &mut rep);
            finish(rep, &a);
        }
        "reader" => {
            let mut rep = Report::new("reader");
            match a.str("mode", "c13").as_str() {
                "c13" => d_reader::run_c13(&prop, seed, a.num("inputs", 8) as usize, a.get("trace"), &mut rep),
                _ => d_reader::run_c11(&prop, seed, a.num("inputs", 8) as usize, &mut rep),
            }
            finish(rep, &a);
        }
        "reuse" => {
            let mut rep = Report::new("reuse");
            d_reuse::run(&prop, seed, a.num("histories", 40) as usize, a.get("trace"), &mut rep);
            finish(rep, &a);
        }
        "enc" => {
            let mut rep = Report::new("enc");
            d_enc::run(&prop, seed, a.get("thorough").is_some(), a.get("trace"), &mut rep);
            finish(rep, &a);
        }
        "total" => {
            let mut rep = Report::new("total");
            d_total::run(&prop, seed, a.num("from", 0), a.num("count", 20000), a.get("trace"), a.get("journal"), &mut rep);
            finish(rep, &a);
        }
        "xztrace" => {
            let mut rep = Report::new("xztrace");
            d_symtrace::run_xz(&prop, seed, &a.str("files", "/repo/tests/files"), &a.str("trace", "/tmp/xztrace.ndjson"), &mut rep);
            finish(rep, &a);
        }
        "symtrace" => {
            let mut rep = Report::new("symtrace");
            d_symtrace::run(&prop, seed, &a.str("files", "/repo/tests/files"), a.num("cap", 20000) as usize, &a.str("trace", "/tmp/symtrace.ndjson"), &mut rep);
            finish(rep, &a);
        }
        "rcsmall" => {
            let mut rep = Report::new("rcsmall");
            let par = d_rcsmall::Par { w: a.num("W", 9) as u32, b: a.num("B", 3) as u32, p: a.num("P", 4) as u32, m: a.num("M", 2) as u32 };
            d_rcsmall::run(&prop, seed, &a.str("export", ""), par, a.num("nctx", 2) as usize, &mut rep);
            finish(rep, &a);
        }
        "carrysearch" if a.get("long-carry").is_some() => {
            // steered search for carries through long runs of pending bytes; appends to the corpus file
            let targets: Vec<u64> = a.str("long-carry", "9,12,16,24,40").split(',').filter_map(|t| t.parse().ok()).collect();
            d_carry::search_long_carry(&targets, &a.str("out-file", "/verif/corpus/enc_edge_inputs.json"));
        }
        "carrysearch" => {
            d_carry::search(a.num("seconds", 600), a.num("threads", 12) as usize, a.num("len", 700) as usize, &a.str("out-file", "/verif/corpus/enc_edge_inputs.json"));
        }
        "xzlib" => {
            let lib = d_xz::payload_lib();
            let v: Vec<serde_json::Value> = lib.iter().map(|(p, o)| serde_json::json!({"plen": p.len(), "ulen": o.len()})).collect();
            println!("{}", serde_json::Value::Array(v));
        }
        "constants" => {
            #[cfg(lzma_rs_verif)]
            {
                let c = lzma_rs::verif::constants();
                println!(
                    "{}",
                    serde_json::json!({"MaxReq": c.max_required_input, "TmpMax": c.max_tmp_len, "MinHdr": c.min_header_len, "MaxHdr": c.max_header_len, "Pre": c.start_bytes})
                );
            }
            #[cfg(not(lzma_rs_verif))]
            println!("{{}}");
        }
        "replay" => {
            let f = &a.pos[0];
            let v: serde_json::Value = serde_json::from_str(&std::fs::read_to_string(f).expect("read replay")).expect("json");
            let case = &v["case"];
            let prop = v["property"].as_str().unwrap_or("C00").to_string();
            let mut rep = Report::new("replay");
            match case["kind"].as_str().unwrap_or("") {
                "lzma" => d_lzma::replay_value(case, &prop, &mut rep),
                "ep" => d_lzma::replay_ep(case, &prop, &mut rep),
                "bytes" => d_lzma::replay_bytes(case, &prop, &mut rep),
                // fabrication probes depend on object histories: the whole (deterministic) probe set is run again
                "fab" => d_lzma::fab_probes(&prop, case["seed"].as_u64().unwrap_or(1), case["n"].as_u64().unwrap_or(90) as usize, &mut rep),
                "stream" => d_stream::replay_value(case, &prop, &mut rep),
                "xz" | "xzbytes" => d_xz::replay_value(case, &prop, &mut rep),
                "xzbig" => d_xz::big_valid(&prop, &mut rep),
                "lzma2" => d_lzma2::replay_value(case, &prop, &mut rep),
                "io" => d_io::replay_value(case, &prop, &mut rep),
                "reader" => d_reader::replay_value(case, &prop, &mut rep),
                "total" => d_total::replay_value(case, &prop, &mut rep),
                "enc" => d_enc::run(&prop, case["seed"].as_u64().unwrap_or(1), false, None, &mut rep),
                "reuse" => {
                    let sd = case["seed"].as_u64().unwrap_or(1);
                    d_reuse::run(&prop, sd, case["history"].as_u64().unwrap_or(0) as usize + 1, None, &mut rep);
                }
                k => {
                    eprintln!("unknown case kind {}", k);
                    std::process::exit(2);
                }
            }
            let bad = !rep.violations.is_empty();
            finish(rep, &a);
            std::process::exit(if bad { 1 } else { 0 });
        }
        _ => {
            eprintln!("usage: lzverif <lzma|replay|...> [--key value]...");
            std::process::exit(2);
        }
    }
}

//! Reference decoder for single-stream .xz files whose blocks use the LZMA2 filter alone: container fields parsed
//! per the format specification (own CRC32 / CRC64), payload decoded by the reference LZMA2 decoder of the oracle.
//! Used as the "independent conforming decoder" for what xz_compress emits, whatever block structure, check type or
//! chunk layout the encoder chooses.

use crate::kernel::{crc32, crc64};
use crate::oracle::{expect_lzma2, Exp};

fn varint(d: &[u8], pos: &mut usize) -> Result<u64, String> {
    let mut v = 0u64;
    for i in 0..9 {
        let b = *d.get(*pos).ok_or("varint runs past the end")?;
        *pos += 1;
        v |= ((b & 0x7F) as u64) << (7 * i);
        if b & 0x80 == 0 {
            if b == 0 && i > 0 {
                return Err("varint not minimally encoded".into());
            }
            return Ok(v);
        }
    }
    Err("varint longer than 9 bytes".into())
}

fn check_len(id: u8) -> Result<usize, String> {
    Ok(match id {
        0 => 0,
        1 => 4,
        4 => 8,
        10 => 32,
        _ => return Err(format!("check id {} not handled by the reference decoder", id)),
    })
}

pub fn decode(d: &[u8]) -> Result<Vec<u8>, String> {
    if d.len() < 24 || d[0..6] != [0xFD, 0x37, 0x7A, 0x58, 0x5A, 0x00] {
        return Err("stream header magic".into());
    }
    if d[6] != 0 || d[7] & 0xF0 != 0 {
        return Err("reserved stream flags".into());
    }
    if crc32(&d[6..8]) != u32::from_le_bytes([d[8], d[9], d[10], d[11]]) {
        return Err("stream header CRC32".into());
    }
    let check = d[7];
    let clen = check_len(check)?;
    let mut pos = 12usize;
    let mut out: Vec<u8> = vec![];
    let mut records: Vec<(u64, u64)> = vec![];
    loop {
        let hs = *d.get(pos).ok_or("input ends before the index")?;
        if hs == 0 {
            break;
        }
        let hsize = (hs as usize + 1) * 4;
        if pos + hsize > d.len() {
            return Err("block header runs past the end".into());
        }
        let h = &d[pos..pos + hsize];
        if crc32(&h[..hsize - 4]) != u32::from_le_bytes([h[hsize - 4], h[hsize - 3], h[hsize - 2], h[hsize - 1]]) {
            return Err("block header CRC32".into());
        }
        let flags = h[1];
        if flags & 0x3C != 0 {
            return Err("reserved block flags".into());
        }
        if flags & 3 != 0 {
            return Err("more than one filter: not handled by the reference decoder".into());
        }
        let mut hp = 2usize;
        let packed_decl = if flags & 0x40 != 0 { Some(varint(&h[..hsize - 4], &mut hp)?) } else { None };
        let unpacked_decl = if flags & 0x80 != 0 { Some(varint(&h[..hsize - 4], &mut hp)?) } else { None };
        let fid = varint(&h[..hsize - 4], &mut hp)?;
        let plen = varint(&h[..hsize - 4], &mut hp)? as usize;
        if fid != 0x21 || plen != 1 {
            return Err("filter other than LZMA2 with one property byte".into());
        }
        if *h.get(hp).ok_or("filter properties run past the header")? > 40 {
            return Err("LZMA2 dictionary size property > 40".into());
        }
        hp += 1;
        if h[hp..hsize - 4].iter().any(|&b| b != 0) {
            return Err("block header padding".into());
        }
        let pstart = pos + hsize;
        let e = expect_lzma2(&d[pstart..]);
        let used = match (e.v, e.consumed) {
            (Exp::Ok, Some(n)) => n,
            _ => return Err(format!("LZMA2 payload: {}", e.class)),
        };
        if let Some(p) = packed_decl {
            if p != used as u64 {
                return Err("declared compressed size".into());
            }
        }
        if let Some(u) = unpacked_decl {
            if u != e.out.len() as u64 {
                return Err("declared uncompressed size".into());
            }
        }
        let mut q = pstart + used;
        while (q - pos) % 4 != 0 {
            if *d.get(q).ok_or("block padding runs past the end")? != 0 {
                return Err("block padding".into());
            }
            q += 1;
        }
        if q + clen > d.len() {
            return Err("block check runs past the end".into());
        }
        let ck = &d[q..q + clen];
        let ok = match check {
            1 => ck == crc32(&e.out).to_le_bytes(),
            4 => ck == crc64(&e.out).to_le_bytes(),
            _ => true,
        };
        if !ok {
            return Err("block check".into());
        }
        records.push(((hsize + used + clen) as u64, e.out.len() as u64));
        out.extend_from_slice(&e.out);
        pos = q + clen;
    }
    // index
    let istart = pos;
    pos += 1;
    let n = varint(d, &mut pos)?;
    if n != records.len() as u64 {
        return Err("index record count".into());
    }
    for r in &records {
        let a = varint(d, &mut pos)?;
        let b = varint(d, &mut pos)?;
        if (a, b) != *r {
            return Err("index record".into());
        }
    }
    while (pos - istart) % 4 != 0 {
        if *d.get(pos).ok_or("index padding runs past the end")? != 0 {
            return Err("index padding".into());
        }
        pos += 1;
    }
    if pos + 4 + 12 > d.len() {
        return Err("index CRC / footer run past the end".into());
    }
    if crc32(&d[istart..pos]) != u32::from_le_bytes([d[pos], d[pos + 1], d[pos + 2], d[pos + 3]]) {
        return Err("index CRC32".into());
    }
    pos += 4;
    let isz = pos - istart;
    let f = &d[pos..pos + 12];
    if crc32(&f[4..10]) != u32::from_le_bytes([f[0], f[1], f[2], f[3]]) {
        return Err("footer CRC32".into());
    }
    if (u32::from_le_bytes([f[4], f[5], f[6], f[7]]) as usize + 1) * 4 != isz {
        return Err("backward size".into());
    }
    if f[8] != d[6] || f[9] != d[7] || f[10] != b'Y' || f[11] != b'Z' {
        return Err("footer flags / magic".into());
    }
    if pos + 12 != d.len() {
        return Err("bytes after the stream".into());
    }
    Ok(out)
}

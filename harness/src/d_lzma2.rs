//! Driver for the LZMA2 chunk layer (C02, C17; C09 for the accumulating window).

use crate::api::{self, Verdict};
use crate::build::{lzma2_chunk_header, Chunk, L2State, XzBlock, XzFile};
use crate::coding::{Props, Sym};
use crate::d_lzma::{random_walk, tlc_json_lines, WalkCfg};
use crate::oracle::{expect_lzma2, Exp};
use crate::report::{hash_of, hex, is_prefix, unhex, Report};
use rand::rngs::StdRng;
use rand::{Rng, SeedableRng};
use serde::{Deserialize, Serialize};
use serde_json::{json, Value};

/// property sets used for "newprops = n" of the model (all with lc + lp <= 4)
const PROPS_TAB: [(u32, u32, u32); 6] = [(3, 0, 2), (0, 2, 1), (4, 0, 0), (1, 3, 4), (0, 0, 0), (2, 2, 3)];

#[derive(Clone, Debug, Serialize, Deserialize)]
pub struct L2Case {
    /// full stream bytes
    pub data_hex: String,
    /// "lzma2" | "raw" | "xz"
    pub api: String,
    #[serde(default)]
    pub spec_res: Option<String>,
    #[serde(default)]
    pub spec_why: Option<String>,
    #[serde(default)]
    pub spec_out: Option<Vec<u8>>,
    #[serde(default)]
    pub origin: String,
}

/// Serialise the chunk list of an MC_Lzma2 behaviour.
pub fn build_from_tlc(chunks: &[Value], rot: usize) -> Option<Vec<u8>> {
    let mut st = L2State::default();
    let mut out: Vec<u8> = vec![];
    for c in chunks {
        match c["k"].as_str()? {
            "raw" => {
                let data: Vec<u8> = c["data"].as_array()?.iter().map(|x| x.as_u64().unwrap() as u8).collect();
                let reset = c["reset"].as_bool()?;
                let short = c["short"].as_bool()?;
                let ch = st.push(&Chunk::Raw { reset, data: data.clone() });
                let mut b = ch.bytes;
                if short {
                    // declares two bytes more than are there; the stream ends here
                    let n = data.len() + 2 - 1;
                    b[1] = (n >> 8) as u8;
                    b[2] = (n & 0xFF) as u8;
                }
                out.extend_from_slice(&b);
            }
            "lzma" => {
                let class = c["class"].as_u64()? as u8;
                let np = c["newprops"].as_u64()? as usize;
                let prog: Vec<Sym> = serde_json::from_value(c["prog"].clone()).ok()?;
                let u = c["u"].as_i64()?;
                let pk = c["pk"].as_str()?;
                let eos = c["eos"].as_bool().unwrap_or(false);
                let mut prog = prog;
                if eos {
                    prog.push(Sym::Eos);
                }
                let props = if class >= 2 {
                    let t = PROPS_TAB[(np + rot) % PROPS_TAB.len()];
                    Some(Props { lc: t.0, lp: t.1, pb: t.2 })
                } else {
                    None
                };
                let ch = st.push(&Chunk::Lzma { class, props, prog });
                let payload = ch.bytes[ch.payload_off..].to_vec();
                let (packed_decl, extra): (usize, Vec<u8>) = match pk {
                    "exact" => (payload.len(), vec![]),
                    "short" => (payload.len() - 1, vec![]),
                    _ => (payload.len() + 1, vec![0]),
                };
                if u < 1 || packed_decl < 1 {
                    return None;
                }
                let mut b = lzma2_chunk_header(class, u as usize, packed_decl, if class >= 2 { props } else { None });
                b.extend_from_slice(&payload);
                b.extend_from_slice(&extra);
                out.extend_from_slice(&b);
            }
            "end" => out.push(0),
            "badcontrol" => {
                out.push(c["b"].as_u64()? as u8);
                out.extend_from_slice(&[0, 0, 0, 0, 0]);
            }
            "badprops" => {
                let class = c["class"].as_u64()? as u8;
                if c["kind"].as_str()? == "ge225" {
                    out.push(0x80 | (class << 5));
                    out.extend_from_slice(&[0, 0, 0, 5, 225, 0, 0, 0, 0, 0, 0]);
                } else {
                    // lc + lp > 4 is illegal in LZMA2 but perfectly codable: give the chunk a well-formed
                    // payload under those properties, so that a decoder skipping the check would succeed
                    let bad = [Props { lc: 4, lp: 1, pb: 0 }, Props { lc: 8, lp: 4, pb: 2 }, Props { lc: 3, lp: 2, pb: 1 }][rot % 3];
                    let mut st2 = st.clone();
                    let prog = vec![Sym::Lit { b: 1 }, Sym::Lit { b: 2 }, Sym::Match { d: 2, n: 6 }, Sym::Lit { b: 3 }];
                    // encode by hand: L2State refuses nothing, props are just numbers to the encoder
                    let ch = st2.push(&Chunk::Lzma { class, props: Some(bad), prog });
                    out.extend_from_slice(&ch.bytes);
                    out.push(0);
                }
            }
            "eof" => {}
            _ => return None,
        }
    }
    // A behaviour that ended in a faulty LZMA chunk has no end byte in the model (decoding stopped there).
    // Give a lenient decoder a well-formed continuation, otherwise it would still fail later for lack of
    // input and the leniency would stay invisible.
    if let Some(last) = chunks.last() {
        if last["k"] == "lzma" {
            out.push(0);
        }
    }
    Some(out)
}

fn wrap_xz(l2: &[u8], content: &[u8], check: u8) -> Vec<u8> {
    let f = XzFile {
        check,
        // dictionary property 40 (4 GiB - 1): inside a container the LZMA2 dictionary size is part of well-formedness,
        // and the streams wrapped here may reach further back than the default 8 MiB
        blocks: vec![XzBlock { payload: l2.to_vec(), content: content.to_vec(), filter_props: Some(vec![40]), ..Default::default() }],
        ..Default::default()
    };
    f.serialize().bytes
}

pub fn check_case(c: &L2Case, prop: &str, rep: &mut Report) -> bool {
    let data = unhex(&c.data_hex);
    let e = expect_lzma2(&data);
    // TLC prediction vs byte-level oracle
    if let (Some(r), Some(w)) = (&c.spec_res, &c.spec_why) {
        let consistent = match (r.as_str(), w.as_str()) {
            ("ok", _) => e.v == Exp::Ok && Some(&e.out) == c.spec_out.as_ref(),
            ("err", "unpacked-more") => true, // phantom symbols: byte level decides
            // spare declared input / a marker after the declared output: the model (like today's decoder) rejects,
            // the property's list does not include it unless more output is decodable: byte level decides
            ("err", "packed-long") | ("err", "eos") | ("err", "eos-in-chunk") => e.v != Exp::Ok,
            ("err", _) => e.v == Exp::Err,
            _ => false,
        };
        if !consistent {
            rep.tool_error(format!("oracle disagreement: TLC {}/{} vs reference decoder {:?}/{} on {}", r, w, e.v, e.class, c.data_hex));
            return false;
        }
    }
    let (o, consumed) = match c.api.as_str() {
        "lzma2" => {
            let first = api::lzma2_bytes(&data);
            // C17: malformed framing is never accepted - through whatever BufRead the caller has (a header that is
            // not contiguous in the reader's buffer is still the same header)
            if prop == "C17" && e.v == Exp::Err && e.class != "dist" && first.0.verdict == Verdict::Err && data.len() < 3000 {
                let mut kinds: Vec<(Vec<usize>, usize)> = vec![(vec![1], 0), (vec![3, 1, 2], 0), (vec![2], 0)];
                for cap in 1..=6usize {
                    kinds.push((vec![], cap));
                }
                for (frags, cap) in kinds {
                    let mut src = crate::d_reader::LogSrc::new(&data, frags.clone(), false);
                    let mut out = vec![];
                    let accepted = if cap == 0 {
                        matches!(crate::io::catch(|| lzma_rs::lzma2_decompress(&mut src, &mut out).is_ok()), crate::io::Caught::Done(true))
                    } else {
                        let mut br = std::io::BufReader::with_capacity(cap, &mut src);
                        matches!(crate::io::catch(|| lzma_rs::lzma2_decompress(&mut br, &mut out).is_ok()), crate::io::Caught::Done(true))
                    };
                    if accepted {
                        let mut cj = serde_json::to_value(c).unwrap();
                        cj["kind"] = json!("lzma2");
                        rep.violation(prop, format!("malformed stream ({}) accepted when read through {} although the whole-buffer decode rejects it", e.class, if cap == 0 { format!("a source exposing fragments {:?}", frags) } else { format!("a BufReader of capacity {}", cap) }), cj);
                        return false;
                    }
                }
            }
            first
        }
        "raw" => {
            // the raw decoder object is reusable: the verdict must not depend on what the same object
            // saw before (same stream again, with and without reset)
            let first = api::raw_lzma2(&data);
            // what a used object does (with reset: C14's text; without reset: fixed by no listed property) is
            // shape-tier information here; only a panic is reported
            let (again, accepted_again) = raw_twice(&data, e.v == Exp::Ok);
            // C17 quantifies over STREAMS: a stream with malformed framing is "never accepted", whatever the decoder
            // object saw before (the same stream offered again, with or without reset)
            if prop == "C17" && e.v == Exp::Err && e.class != "dist" && accepted_again {
                let mut cj = serde_json::to_value(c).unwrap();
                cj["kind"] = json!("lzma2");
                rep.violation(prop, format!("malformed stream ({}) accepted by an Lzma2Decoder object that had rejected the same stream before", e.class), cj);
                return false;
            }
            if let Some(msg) = again {
                // (also a panic: no listed property speaks about decompress() on a used object that was not reset,
                // and the reset case is C14's)
                rep.drift(format!("(reuse of an Lzma2Decoder, seen while checking {}) {}", prop, msg), json!({"origin": c.origin}));
            }
            first
        }
        "xz" => {
            // bytes after the LZMA2 end byte would be block padding / check bytes of the container: the
            // LZMA2 verdict says nothing about them, so the wrapper only carries the stream proper
            let l2 = match (e.v, e.consumed) {
                (Exp::Ok, Some(n)) if n < data.len() => &data[..n],
                _ => &data[..],
            };
            let x = wrap_xz(l2, &e.out, 1);
            (api::xz_bytes(&x), 0)
        }
        a => panic!("api {}", a),
    };
    // Each clause belongs to the property whose text states it; seen under another property it is shape-tier
    // information (DRIFT): exact output of well-formed streams = C02 (wrong bytes where a copy is invalid = C09's
    // "never fabricates"); acceptance of malformed framing = C17 (out-of-window copy = C09); reader position = C11;
    // what the sink holds after a REJECTION is fixed only by C09 (no fabricated bytes) and C12 (I/O faults).
    let mut vs = vec![];
    let mut other: Vec<String> = vec![];
    let owns = |ps: &[&str]| ps.contains(&prop);
    match o.verdict {
        Verdict::Panic => {
            // a panic is neither success nor an error value: it breaks the property that promises one of them for
            // this input (acceptance of a well-formed stream: C02; rejection with an error: C17, or C09 for a bad copy)
            let d = format!("panic: {}", o.msg);
            let mine = match e.v {
                Exp::Ok => owns(&["C02"]),
                Exp::Err => if e.class == "dist" { owns(&["C09"]) } else { owns(&["C17"]) },
                Exp::Any => false,
            };
            if mine { vs.push(d) } else { other.push(d) }
        }
        Verdict::Ok => match e.v {
            Exp::Ok | Exp::Any => {
                if o.out != e.out {
                    let d = format!("output differs from what the format defines ({} vs {} bytes)", o.out.len(), e.out.len());
                    if owns(&["C02", "C09"]) { vs.push(d) } else { other.push(d) }
                } else if prop == "C11" && c.api != "xz" {
                    if let Some(ec) = e.consumed {
                        if ec != consumed {
                            vs.push(format!("consumed {} bytes, the stream ends at {}", consumed, ec));
                        }
                    }
                }
            }
            Exp::Err => {
                let d = format!("malformed stream accepted ({}), {} bytes delivered", e.class, o.out.len());
                let mine = if e.class == "dist" { owns(&["C09"]) } else { owns(&["C17"]) };
                if mine { vs.push(d) } else { other.push(d) }
            }
        },
        Verdict::Err => match e.v {
            Exp::Ok => {
                let d = format!("well-formed stream rejected: {}", o.msg);
                if owns(&["C02"]) { vs.push(d) } else { other.push(d) }
            }
            _ => {
                if c.api != "xz" && !is_prefix(&o.out, &e.out) {
                    let d = "bytes delivered before the error are not a prefix of the valid output".to_string();
                    if owns(&["C09"]) { vs.push(d) } else { other.push(d) }
                }
            }
        },
    }
    for d in other {
        rep.drift(format!("(clause of another property, seen while checking {}) {}", prop, d), json!({"origin": c.origin, "class": e.class}));
    }
    // sinks that accept only part of each write must still receive exactly the output ("delivers exactly the bytes the
    // format defines" holds for whatever io::Write the caller has; C12 states the same from the sink's side)
    if vs.is_empty() && e.v == Exp::Ok && c.api == "lzma2" && data.len() % 3 == 0 && owns(&["C02", "C12"]) {
        let mut sink = crate::io::FaultSink { short: [1usize, 5, 4096][data.len() / 3 % 3], ..Default::default() };
        let mut rd = &data[..];
        let r = crate::io::catch(|| lzma_rs::lzma2_decompress(&mut rd, &mut sink).is_ok());
        if !matches!(r, crate::io::Caught::Done(true)) || sink.data != e.out {
            vs.push(format!("with a sink that accepts only part of each write the delivered bytes are not the stream's output ({} of {} bytes)", sink.data.len(), e.out.len()));
        }
    }
    rep.count(&format!("class:{}", e.class));
    rep.eval(hash_of(&(c.data_hex.clone(), c.api.clone())), true);
    if !vs.is_empty() {
        let mut cj = serde_json::to_value(c).unwrap();
        cj["kind"] = json!("lzma2");
        cj["predicted"] = json!({"verdict": format!("{:?}", e.v), "class": e.class, "out_len": e.out.len()});
        cj["observed"] = json!({"verdict": format!("{:?}", o.verdict), "out_len": o.out.len(), "msg": o.msg});
        rep.violation(prop, vs.join("; "), cj);
        return false;
    }
    true
}

/// Decode the same stream three times on ONE Lzma2Decoder (plain reuse, then after reset()).
fn raw_twice(data: &[u8], well_formed: bool) -> (Option<String>, bool) {
    use lzma_rs::decompress::raw::Lzma2Decoder;
    let r = crate::io::catch(|| {
        let mut d = Lzma2Decoder::new();
        let mut v = vec![];
        for k in 0..3 {
            if k == 2 {
                d.reset();
            }
            let mut out = vec![];
            let mut rd = data;
            let ok = d.decompress(&mut rd, &mut out).is_ok();
            v.push((ok, out));
        }
        v
    });
    let accepted_again = matches!(&r, crate::io::Caught::Done(v) if v[1].0 || v[2].0);
    let msg = match r {
        crate::io::Caught::Panic(m) => Some(format!("panic on reuse: {}", m)),
        crate::io::Caught::Done(v) => {
            if v[0].0 != v[2].0 || (v[0].0 && v[0].1 != v[2].1) {
                Some(format!("the same stream gives {} on a new Lzma2Decoder but {} after the same object saw it before and was reset", if v[0].0 { "Ok" } else { "Err" }, if v[2].0 { "Ok" } else { "Err" }))
            } else if well_formed && v[0].0 && (!v[1].0 || v[1].1 != v[0].1) {
                // a well-formed stream starts with a dictionary reset, a state reset and new properties: nothing of
                // what the object did before can show, reset() or not
                Some(format!("a well-formed stream offered to the same Lzma2Decoder again (no reset) gives {} with {} bytes, the first time Ok with {} bytes", if v[1].0 { "Ok" } else { "Err" }, v[1].1.len(), v[0].1.len()))
            } else if !v[0].0 && v[1].0 {
                Some("a stream rejected by a new Lzma2Decoder is accepted when offered to the same object again".to_string())
            } else {
                None
            }
        }
    };
    (msg, accepted_again)
}

fn wants(prop: &str, res: &str, why: &str) -> bool {
    match prop {
        "C02" => res == "ok",
        "C17" => res == "err" && why != "dist",
        "C09" => why == "dist",
        _ => true,
    }
}

pub fn replay_export(path: &str, prop: &str, seed: u64, limit: usize, rep: &mut Report) {
    let lines = tlc_json_lines(path, "L2");
    rep.add("tlc_behaviours_in_export", lines.len() as u64);
    let mut picked = vec![];
    for l in &lines {
        let v: Value = match serde_json::from_str(l) {
            Ok(v) => v,
            Err(e) => {
                rep.tool_error(format!("bad L2 line: {}", e));
                continue;
            }
        };
        if wants(prop, v["res"].as_str().unwrap_or(""), v["why"].as_str().unwrap_or("")) {
            picked.push(v);
        }
    }
    rep.add("tlc_behaviours_selected", picked.len() as u64);
    let mut rng = StdRng::seed_from_u64(seed ^ 0x1202);
    let stride = if picked.len() > limit { picked.len() as f64 / limit as f64 } else { 1.0 };
    let mut idx: f64 = if stride > 1.0 { rng.gen::<f64>() * stride } else { 0.0 };
    let mut n = 0usize;
    while (idx as usize) < picked.len() {
        let v = &picked[idx as usize];
        idx += stride;
        n += 1;
        let chunks = v["chunks"].as_array().unwrap();
        let data = match build_from_tlc(chunks, n + seed as usize) {
            Some(d) => d,
            None => {
                rep.count("not_expressible");
                continue;
            }
        };
        let api_name = ["lzma2", "raw", "xz"][n % 3];
        let c = L2Case {
            data_hex: hex(&data),
            api: api_name.into(),
            spec_res: v["res"].as_str().map(|s| s.to_string()),
            spec_why: v["why"].as_str().map(|s| s.to_string()),
            spec_out: serde_json::from_value(v["out"].clone()).ok(),
            origin: "tlc:MC_Lzma2".into(),
        };
        let ok = check_case(&c, prop, rep);
        if ok && rep.samples.len() < 4 && n % 101 == 1 {
            rep.sample(json!({"origin": c.origin, "chunks": chunks, "res": v["res"], "why": v["why"], "api": api_name}));
        }
    }
}

/// One random well-formed chunk sequence (without the end byte): stream bytes, offset of every chunk's
/// control byte, a description of the chunks, total output length.
fn gen_walk(rng: &mut StdRng, i: usize, max_syms: usize) -> Option<(Vec<u8>, Vec<usize>, Vec<String>, usize)> {
    let mut chunks: Vec<Chunk> = vec![];
    let mut offsets: Vec<usize> = vec![];
    let nch = rng.gen_range(1..7);
    let mut have_props = false;
    let mut st = L2State::default();
    let mut stream: Vec<u8> = vec![];
    let mut need_props = true;
    for ci in 0..nch {
        let first = ci == 0;
        let kind = rng.gen_range(0..10);
        if kind < 3 {
            let n = match rng.gen_range(0..8) {
                0 => 1,
                1 => 65536,
                2 => 65535,
                _ => rng.gen_range(1..600),
            };
            let data: Vec<u8> = (0..n).map(|_| rng.gen_range(0..4) * 60).collect();
            let reset = first || rng.gen_bool(0.2);
            if reset {
                need_props = true;
            }
            let ch = Chunk::Raw { reset, data };
            offsets.push(stream.len());
            stream.extend_from_slice(&st.push(&ch).bytes);
            chunks.push(ch);
        } else {
            let class: u8 = if first { 3 } else if need_props || !have_props { rng.gen_range(2..4) } else { rng.gen_range(0..4) };
            let props = if class >= 2 {
                let t = if i % 2 == 0 { PROPS_TAB[rng.gen_range(0..PROPS_TAB.len())] } else {
                    let lc = rng.gen_range(0..=4);
                    (lc, rng.gen_range(0..=(4 - lc)), rng.gen_range(0..=4))
                };
                Some(Props { lc: t.0, lp: t.1, pb: t.2 })
            } else {
                None
            };
            // build a program valid w.r.t. the carried history: generate by trial on a copy
            let p_eff = props.or(st.props).unwrap_or(Props { lc: 0, lp: 0, pb: 0 });
            let hist_len = if class == 3 { 0 } else { st.cs.out.len() };
            let nsyms = match rng.gen_range(0..6) {
                0 => 1,
                1 => rng.gen_range(max_syms / 3..max_syms.max(4)),
                _ => rng.gen_range(2..300.min(max_syms.max(3))),
            };
            let prog = chunk_program(rng, &st, class, nsyms, hist_len, p_eff);
            if prog.is_empty() {
                continue;
            }
            let ch = Chunk::Lzma { class, props, prog };
            // respect the format's size limits: split is not attempted, oversize chunks are skipped
            let mut trial = st.clone();
            let built = trial.push(&ch);
            if built.unpacked == 0 || built.unpacked > (1 << 21) || built.packed > (1 << 16) {
                continue;
            }
            st = trial;
            offsets.push(stream.len());
            stream.extend_from_slice(&built.bytes);
            if class >= 2 {
                have_props = true;
                need_props = false;
            }
            chunks.push(ch);
        }
    }
    if chunks.is_empty() {
        return None;
    }
    let kinds: Vec<String> = chunks.iter().map(|c| match c {
        Chunk::Raw { reset, data } => format!("raw(reset={},{}B)", reset, data.len()),
        Chunk::Lzma { class, props, prog } => format!("lzma(class={},props={:?},{} syms)", class, props.map(|p| (p.lc, p.lp, p.pb)), prog.len()),
    }).collect();
    Some((stream, offsets, kinds, st.total.len() + st.cs.out.len()))
}

/// Long random chunk sequences (C02): aged probabilities carried / reset across chunks,
/// matches into earlier chunks, property changes with equal and different lc+lp, size extremes.
pub fn walks(prop: &str, seed: u64, count: usize, rep: &mut Report) {
    let mut rng = StdRng::seed_from_u64(seed ^ 0x22aa);
    for i in 0..count {
        let (mut stream, _offsets, kinds, e_out_len) = match gen_walk(&mut rng, i, 6000) {
            Some(x) => x,
            None => continue,
        };
        stream.push(0);
        for api_name in ["lzma2", "raw", "xz"] {
            let c = L2Case { data_hex: hex(&stream), api: api_name.into(), spec_res: None, spec_why: None, spec_out: None, origin: format!("walk:{}:{}", seed, i) };
            let ok = check_case(&c, prop, rep);
            if ok && rep.samples.len() < 6 && api_name == "lzma2" && i < 3 {
                rep.sample(json!({"origin": c.origin, "chunks": kinds, "out_len": e_out_len, "stream_bytes": stream.len()}));
            }
        }
    }
}

/// C17 on long chunk sequences: a well-formed random sequence with one framing fault injected at a random
/// chunk (the faults of Lzma2.tla's model, instantiated with aged probabilities, carried windows and real sizes).
/// The verdict comes from the byte-level oracle, so a mutation that happens to stay well-formed is judged as such.
pub fn fault_walks(prop: &str, seed: u64, count: usize, rep: &mut Report) {
    let mut rng = StdRng::seed_from_u64(seed ^ 0x17fa);
    for i in 0..count {
        let (mut stream, offsets, kinds, _) = match gen_walk(&mut rng, i, 400) {
            Some(x) => x,
            None => continue,
        };
        stream.push(0);
        let k = rng.gen_range(0..offsets.len());
        let off = offsets[k];
        let ctrl = stream[off];
        let is_lzma = ctrl >= 0x80;
        let mut b = stream.clone();
        let fault = rng.gen_range(0..12);
        let what: String = match fault {
            0 => {
                b[off] = rng.gen_range(3..0x80);
                format!("control byte of chunk {} -> {:#x}", k, b[off])
            }
            1 if is_lzma && (ctrl >> 5) & 3 >= 2 => {
                b[off + 5] = if rng.gen_bool(0.5) { rng.gen_range(225..=255) } else {
                    let lc = rng.gen_range(1..=8u8);
                    let lp = rng.gen_range((5u8.saturating_sub(lc)).max(0)..=4);
                    let pb = rng.gen_range(0..=4u8);
                    (pb * 5 + lp) * 9 + lc
                };
                format!("props byte of chunk {} -> {}", k, b[off + 5])
            }
            2 | 3 if is_lzma => {
                // unpacked size field (5 + 16 bits) +- delta
                let cur = (((ctrl & 0x1F) as i64) << 16) | (b[off + 1] as i64) << 8 | b[off + 2] as i64;
                let d: i64 = [1, -1, 2, -2, 7, -7, 256, -256, 65536, -65536][rng.gen_range(0..10)];
                let nv = (cur + d).clamp(0, (1 << 21) - 1);
                b[off] = (ctrl & 0xE0) | ((nv >> 16) as u8 & 0x1F);
                b[off + 1] = (nv >> 8) as u8;
                b[off + 2] = nv as u8;
                format!("declared unpacked size of chunk {} {} -> {}", k, cur + 1, nv + 1)
            }
            4 | 5 if is_lzma => {
                let cur = (b[off + 3] as i64) << 8 | b[off + 4] as i64;
                let d: i64 = [1, -1, 2, -2, 5, -5, 256, -256][rng.gen_range(0..8)];
                let nv = (cur + d).clamp(0, 65535);
                b[off + 3] = (nv >> 8) as u8;
                b[off + 4] = nv as u8;
                format!("declared packed size of chunk {} {} -> {}", k, cur + 1, nv + 1)
            }
            6 if !is_lzma => {
                let cur = (b[off + 1] as i64) << 8 | b[off + 2] as i64;
                let d: i64 = [1, -1, 3, -3, 256][rng.gen_range(0..5)];
                let nv = (cur + d).clamp(0, 65535);
                b[off + 1] = (nv >> 8) as u8;
                b[off + 2] = nv as u8;
                format!("declared size of uncompressed chunk {} {} -> {}", k, cur + 1, nv + 1)
            }
            7 => {
                let cut = rng.gen_range(off..b.len());
                b.truncate(cut);
                format!("stream cut at byte {} (inside / after chunk {})", cut, k)
            }
            8 => {
                b.pop();
                "end byte missing".to_string()
            }
            9 => {
                let l = b.len();
                b[l - 1] = rng.gen_range(3..0x80);
                format!("end byte -> {:#x}", b[l - 1])
            }
            10 if is_lzma => {
                // reset class lowered: a chunk that needs new properties / a dictionary reset does not ask for them
                let class = (ctrl >> 5) & 3;
                if class >= 2 {
                    let nc = rng.gen_range(0..class);
                    b[off] = 0x80 | (nc << 5) | (ctrl & 0x1F);
                    if nc < 2 {
                        b.remove(off + 5);
                    }
                    format!("reset class of chunk {} {} -> {}", k, class, nc)
                } else {
                    continue;
                }
            }
            11 => {
                let n = rng.gen_range(1..4);
                for _ in 0..n {
                    b.insert(off, rng.gen_range(3..=255));
                }
                format!("{} stray bytes before chunk {}", n, k)
            }
            _ => continue,
        };
        if b == stream {
            continue;
        }
        for api_name in ["lzma2", "raw", "xz"] {
            let c = L2Case { data_hex: hex(&b), api: api_name.into(), spec_res: None, spec_why: None, spec_out: None, origin: format!("fault-walk:{}:{}:{}", seed, i, what) };
            let ok = check_case(&c, prop, rep);
            if ok && rep.samples.len() < 8 && api_name == "lzma2" && i % 7 == 0 {
                rep.sample(json!({"origin": c.origin, "chunks": kinds, "fault": what}));
            }
        }
    }
}

/// Chunk size extremes instantiated for real: compressed size exactly 65536 and 65535 bytes,
/// uncompressed size exactly 2 MiB, 1-byte chunks, each followed by a chunk that continues from the
/// carried state (so that a mis-sized read desynchronises visibly).
pub fn extremes(prop: &str, seed: u64, rep: &mut Report) {
    use crate::coding::{encode_decs, Probs, CS};
    use crate::kernel::RangeEnc;
    let mut rng = StdRng::seed_from_u64(seed ^ 0xe87);
    let p = Props { lc: 3, lp: 0, pb: 2 };
    // program whose payload is exactly `target` bytes long (5 + normalisations)
    let prog_with_packed = |rng: &mut StdRng, target: usize| -> Vec<Sym> {
        let mut cs = CS::default();
        let mut probs = Probs::default();
        let mut enc = RangeEnc::new();
        let mut prog = vec![];
        let want = (target - 5) as u64;
        while enc.norms + 4 < want {
            let s = Sym::Lit { b: rng.gen() };
            let d = cs.decisions(&s, p);
            encode_decs(&mut enc, &mut probs, &d);
            cs.apply(&s);
            prog.push(s);
        }
        // cheap symbols: each costs well under one byte once adapted, so the count cannot jump past the target
        while enc.norms < want {
            let s = Sym::Short;
            let d = cs.decisions(&s, p);
            encode_decs(&mut enc, &mut probs, &d);
            cs.apply(&s);
            prog.push(s);
        }
        assert_eq!(enc.norms, want);
        prog
    };
    let big_unpacked: Vec<Sym> = {
        // 1 + 7681 * 273 + 238 = 2^21
        let mut v = vec![Sym::Lit { b: 0x5A }];
        for _ in 0..7681 {
            v.push(Sym::Rep { r: 0, n: 273 });
        }
        v.push(Sym::Rep { r: 0, n: 238 });
        v
    };
    let tail = vec![Sym::Lit { b: 1 }, Sym::Rep { r: 0, n: 5 }, Sym::Match { d: 2, n: 9 }, Sym::Short, Sym::Lit { b: 2 }];
    let cases: Vec<(&str, Vec<Chunk>)> = vec![
        ("packed=65536", vec![Chunk::Lzma { class: 3, props: Some(p), prog: prog_with_packed(&mut rng, 65536) }, Chunk::Lzma { class: 0, props: None, prog: tail.clone() }]),
        ("packed=65535", vec![Chunk::Lzma { class: 3, props: Some(p), prog: prog_with_packed(&mut rng, 65535) }, Chunk::Lzma { class: 0, props: None, prog: tail.clone() }]),
        ("unpacked=2MiB", vec![Chunk::Lzma { class: 3, props: Some(p), prog: big_unpacked.clone() }, Chunk::Lzma { class: 0, props: None, prog: tail.clone() }]),
        // a chunk of more than 1 MiB (bit 4 of the control byte set) in every reset class: 0x9x, 0xBx, 0xDx after a first chunk
        ("unpacked>1MiB class0", vec![Chunk::Lzma { class: 3, props: Some(p), prog: vec![Sym::Lit { b: 0x5A }, Sym::Lit { b: 0x5B }] }, Chunk::Lzma { class: 0, props: None, prog: big_unpacked[1..].to_vec() }, Chunk::Lzma { class: 0, props: None, prog: tail.clone() }]),
        ("unpacked>1MiB class1", vec![Chunk::Lzma { class: 3, props: Some(p), prog: vec![Sym::Lit { b: 0x5A }, Sym::Match { d: 1, n: 7 }] }, Chunk::Lzma { class: 1, props: None, prog: { let mut v = vec![Sym::Lit { b: 0x41 }]; v.extend(big_unpacked[1..4000].iter().cloned()); v } }, Chunk::Lzma { class: 0, props: None, prog: tail.clone() }]),
        ("unpacked>1MiB class2", vec![Chunk::Lzma { class: 3, props: Some(p), prog: vec![Sym::Lit { b: 0x5A }, Sym::Match { d: 1, n: 7 }] }, Chunk::Lzma { class: 2, props: Some(Props { lc: 0, lp: 2, pb: 1 }), prog: { let mut v = vec![Sym::Lit { b: 0x41 }]; v.extend(big_unpacked[1..4200].iter().cloned()); v } }, Chunk::Lzma { class: 0, props: None, prog: tail.clone() }]),
        ("unpacked=1,packed=min", vec![Chunk::Lzma { class: 3, props: Some(p), prog: vec![Sym::Lit { b: 9 }] }, Chunk::Lzma { class: 1, props: None, prog: vec![Sym::Lit { b: 8 }] }, Chunk::Raw { reset: false, data: vec![7] }]),
        ("raw=65536 then lzma", vec![Chunk::Raw { reset: true, data: (0..65536usize).map(|i| (i % 253) as u8).collect() }, Chunk::Lzma { class: 2, props: Some(p), prog: vec![Sym::Match { d: 65536, n: 273 }, Sym::Rep { r: 0, n: 100 }] }]),
    ];
    let mut cases = cases;
    {
        // more than 32 MiB of history without a dictionary reset, then a match reaching 24 MiB back: the accumulating
        // window of the LZMA2 decoder must still hold everything since the last dictionary reset
        let mut chunks: Vec<Chunk> = vec![];
        for i in 0..529usize {
            chunks.push(Chunk::Raw { reset: i == 0, data: (0..65536usize).map(|j| ((i * 31 + j) % 251) as u8).collect() });
        }
        chunks.push(Chunk::Lzma { class: 2, props: Some(p), prog: vec![Sym::Match { d: 24 << 20, n: 20 }, Sym::Lit { b: 7 }, Sym::Match { d: (33 << 20) + 5, n: 9 }] });
        cases.push(("far match over 33 MiB of stored chunks", chunks));
    }
    for (name, chunks) in cases {
        let (stream, out, infos) = crate::build::lzma2_stream(&chunks);
        for api_name in ["lzma2", "raw", "xz"] {
            let c = L2Case { data_hex: hex(&stream), api: api_name.into(), spec_res: None, spec_why: None, spec_out: None, origin: format!("extreme:{}", name) };
            let ok = check_case(&c, prop, rep);
            if ok && api_name == "lzma2" && rep.samples.len() < 8 {
                rep.sample(json!({"origin": c.origin, "first_chunk": {"unpacked": infos[0].unpacked, "packed": infos[0].packed}, "out_len": out.len()}));
            }
        }
    }
}

/// C17 at the carries of the size fields: chunks that produce 0x10000 bytes but declare 0x20000 (and vice
/// versa), that declare 0x10000 / 0x1FFFF more or less than they produce, each followed by the end byte.
pub fn framing_extremes(prop: &str, rep: &mut Report) {
    let p = Props { lc: 3, lp: 0, pb: 2 };
    let prog_for = |n: usize| -> Vec<Sym> {
        let mut v = vec![Sym::Lit { b: 0x33 }];
        let mut left = n - 1;
        while left > 0 {
            let k = if left >= 273 + 2 { 273 } else if left >= 2 { left } else { 0 };
            if k == 0 {
                v.push(Sym::Lit { b: 0x33 });
                left -= 1;
            } else {
                v.push(Sym::Rep { r: 0, n: k as u32 });
                left -= k;
            }
        }
        v
    };
    for (produced, declared) in [(0x10000usize, 0x20000usize), (0x20000, 0x10000), (0x20000, 0x30000), (0x10000, 0x10001), (0x10001, 0x10000), (0x1FFFF, 0x20000), (0x20000, 0x1FFFF), (0x200000, 0x100000), (0x100000, 0x200000)] {
        let mut st = L2State::default();
        let ch = st.push(&Chunk::Lzma { class: 3, props: Some(p), prog: prog_for(produced) });
        let payload = ch.bytes[ch.payload_off..].to_vec();
        let mut b = lzma2_chunk_header(3, declared, payload.len(), Some(p));
        b.extend_from_slice(&payload);
        b.push(0);
        for api_name in ["lzma2", "xz"] {
            let c = L2Case { data_hex: hex(&b), api: api_name.into(), spec_res: None, spec_why: None, spec_out: None, origin: format!("framing-extreme:produces{:#x}-declares{:#x}", produced, declared) };
            check_case(&c, prop, rep);
        }
    }
    rep.sample(json!({"origin": "framing_extremes", "what": "chunks declaring 0x10000 / 0x1FFFF / 0x100000 more or less than they produce (carries of the 16+5-bit size field)"}));
}

/// C09 across a dictionary reset at real sizes: a compressed chunk that continues from the previous chunk's
/// data is built without dictionary reset (so that every copy is legal and the coding is known), then its
/// control byte is switched to the dictionary-resetting class (same header layout, same state reset): every copy
/// reaching before the chunk is now out of window.  Chunk sizes on both sides of 64 KiB put the reset request
/// on control bytes 0xE0 and 0xE1..0xFF.
pub fn dict_reset_probes(prop: &str, rep: &mut Report) {
    let p = Props { lc: 3, lp: 0, pb: 2 };
    for (si, &size) in [4usize, 300, 65536, 65537, 70000, 200000, 1 << 21].iter().enumerate() {
        for bad_first in [true, false] {
            let mut st = L2State::default();
            let mut stream: Vec<u8> = vec![];
            let a: Vec<u8> = (0..200u32).map(|i| (i * 7 % 251) as u8).collect();
            stream.extend_from_slice(&st.push(&Chunk::Raw { reset: true, data: a }).bytes);
            let mut prog: Vec<Sym> = vec![];
            let mut left = size;
            if bad_first {
                prog.push(Sym::Match { d: 37, n: 3 });
                left -= 3;
            } else {
                left -= 4;
            }
            if left > 0 {
                prog.push(Sym::Lit { b: 0x5a });
                left -= 1;
            }
            let mut first_fill = true;
            while left > 0 {
                let k = if left >= 273 + 2 { 273 } else if left >= 2 { left } else { 0 };
                if k == 0 {
                    prog.push(Sym::Lit { b: 0x5a });
                    left -= 1;
                } else {
                    prog.push(if first_fill { Sym::Match { d: 1, n: k as u32 } } else { Sym::Rep { r: 0, n: k as u32 } });
                    first_fill = false;
                    left -= k;
                }
            }
            if !bad_first {
                // reaches 10 bytes before the start of this chunk
                prog.push(Sym::Match { d: (size - 4) as u64 + 10, n: 4 });
            }
            let at = stream.len();
            let ch = st.push(&Chunk::Lzma { class: 2, props: Some(p), prog });
            if ch.invalid_at.is_some() || ch.unpacked != size || ch.packed > (1 << 16) {
                rep.tool_error(format!("dict_reset_probes: chunk of {} bytes could not be built", size));
                continue;
            }
            stream.extend_from_slice(&ch.bytes);
            stream.push(0);
            // sanity: as built (no dictionary reset) the stream is well-formed
            if expect_lzma2(&stream).v != Exp::Ok {
                rep.tool_error("dict_reset_probes: the unpatched stream is not well-formed".into());
                continue;
            }
            stream[at] |= 0x20; // class 2 -> class 3
            for api_name in ["lzma2", "raw", "xz"] {
                let c = L2Case { data_hex: hex(&stream), api: api_name.into(), spec_res: None, spec_why: None, spec_out: None,
                                 origin: format!("dict-reset-probe:size{}:{}:{}", size, if bad_first { "first-symbol" } else { "last-symbol" }, si) };
                check_case(&c, prop, rep);
            }
        }
    }
    rep.sample(json!({"origin": "dict_reset_probes", "what": "copy reaching before a dictionary-resetting compressed chunk (control 0xE0 and 0xE1..0xFF), first and last symbol of the chunk", "chunk_sizes": [4, 300, 65536, 65537, 70000, 200000, 2097152]}));
}

/// Random program for one chunk given the carried state (history length, st, rep).
fn chunk_program(rng: &mut StdRng, st: &L2State, class: u8, nsyms: usize, hist_len: usize, _p: Props) -> Vec<Sym> {
    // simulate validity on a light-weight copy: only lengths / rep distances matter
    let mut cs = st.cs.clone();
    if class == 3 {
        cs.out.clear();
    }
    if class >= 1 {
        cs.st = 0;
        cs.rep = [0; 4];
    }
    let _ = hist_len;
    let mut prog = vec![];
    let mut guard = 0;
    while prog.len() < nsyms && guard < nsyms * 20 {
        guard += 1;
        let produced = cs.out.len() as u64;
        let r = rng.gen_range(0..100);
        let len_pick = |rng: &mut StdRng| -> u32 {
            match rng.gen_range(0..10) {
                0..=4 => rng.gen_range(2..=9),
                5..=7 => rng.gen_range(10..=17),
                _ => rng.gen_range(18..=273),
            }
        };
        let s = if produced == 0 || r < 35 {
            Sym::Lit { b: (rng.gen_range(0..5u32) * 50) as u8 }
        } else if r < 65 {
            let bits = 64 - produced.leading_zeros();
            let k = rng.gen_range(0..=bits);
            let hi = (1u64 << k.min(40)).max(1).min(produced);
            Sym::Match { d: rng.gen_range(1..=hi), n: len_pick(rng) }
        } else if r < 75 {
            Sym::Short
        } else {
            Sym::Rep { r: rng.gen_range(0..4), n: len_pick(rng) }
        };
        if cs.valid(&s) {
            cs.apply(&s);
            prog.push(s);
            if cs.out.len() > st.cs.out.len() + (1 << 21) - 300 {
                break;
            }
        }
    }
    prog
}

pub fn replay_value(v: &Value, prop: &str, rep: &mut Report) {
    let c: L2Case = serde_json::from_value(v.clone()).expect("lzma2 case");
    check_case(&c, prop, rep);
}

#[allow(unused)]
fn unused(_: WalkCfg) {
    let _ = random_walk;
}

//! Result accumulation for one harness run; serialised to JSON for bin/check.

use serde_json::{json, Value};
use std::collections::hash_map::DefaultHasher;
use std::collections::HashSet;
use std::hash::{Hash, Hasher};

pub struct Report {
    pub driver: String,
    pub evaluations: u64,
    pub distinct: HashSet<u64>,
    pub samples: Vec<Value>,
    pub violations: Vec<Value>,
    pub drift: Vec<Value>,
    pub tool_errors: Vec<String>,
    pub dontcare: u64,
    pub counters: std::collections::BTreeMap<String, u64>,
    pub max_samples: usize,
    pub max_violations: usize,
    pub traces: Vec<String>,
}

pub fn hash_of<T: Hash>(t: &T) -> u64 {
    let mut h = DefaultHasher::new();
    t.hash(&mut h);
    h.finish()
}

impl Report {
    pub fn new(driver: &str) -> Self {
        Report {
            driver: driver.to_string(),
            evaluations: 0,
            distinct: HashSet::new(),
            samples: vec![],
            violations: vec![],
            drift: vec![],
            tool_errors: vec![],
            dontcare: 0,
            counters: Default::default(),
            max_samples: 6,
            max_violations: 20,
            traces: vec![],
        }
    }
    pub fn count(&mut self, key: &str) {
        *self.counters.entry(key.to_string()).or_insert(0) += 1;
    }
    pub fn add(&mut self, key: &str, n: u64) {
        *self.counters.entry(key.to_string()).or_insert(0) += n;
    }
    /// Record one evaluated case. `nontrivial` per the driver's stated rule.
    pub fn eval(&mut self, case_hash: u64, nontrivial: bool) {
        self.evaluations += 1;
        if nontrivial {
            self.distinct.insert(case_hash);
        }
    }
    pub fn sample(&mut self, v: Value) {
        if self.samples.len() < self.max_samples {
            self.samples.push(v);
        }
    }
    pub fn violation(&mut self, property: &str, desc: String, case: Value) {
        self.count("violations_total");
        if self.violations.len() < self.max_violations {
            self.violations.push(json!({"property": property, "desc": desc, "case": case}));
        }
    }
    pub fn drift(&mut self, desc: String, case: Value) {
        self.count("drift_total");
        if self.drift.len() < 20 {
            self.drift.push(json!({"desc": desc, "case": case}));
        }
    }
    pub fn tool_error(&mut self, s: String) {
        if self.tool_errors.len() < 20 {
            self.tool_errors.push(s);
        }
    }
    pub fn to_json(&self) -> Value {
        json!({
            "driver": self.driver,
            "evaluations": self.evaluations,
            "distinct_nontrivial": self.distinct.len(),
            "samples": self.samples,
            "violations": self.violations,
            "drift": self.drift,
            "tool_errors": self.tool_errors,
            "dontcare": self.dontcare,
            "counters": self.counters,
            "traces": self.traces,
        })
    }
    pub fn merge(&mut self, o: Report) {
        self.evaluations += o.evaluations;
        self.distinct.extend(o.distinct);
        for s in o.samples {
            self.sample(s);
        }
        for v in o.violations {
            if self.violations.len() < self.max_violations {
                self.violations.push(v);
            }
        }
        for d in o.drift {
            if self.drift.len() < 20 {
                self.drift.push(d);
            }
        }
        self.tool_errors.extend(o.tool_errors);
        self.dontcare += o.dontcare;
        for (k, v) in o.counters {
            *self.counters.entry(k).or_insert(0) += v;
        }
        self.traces.extend(o.traces);
    }
}

pub fn hex(b: &[u8]) -> String {
    let mut s = String::with_capacity(b.len() * 2);
    for x in b {
        s.push_str(&format!("{:02x}", x));
    }
    s
}

pub fn unhex(s: &str) -> Vec<u8> {
    (0..s.len() / 2)
        .map(|i| u8::from_str_radix(&s[2 * i..2 * i + 2], 16).unwrap())
        .collect()
}

pub fn is_prefix(a: &[u8], b: &[u8]) -> bool {
    a.len() <= b.len() && &b[..a.len()] == a
}

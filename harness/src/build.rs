//! Serialisers: .lzma header, LZMA2 chunk framing, .xz container (with harness CRCs).

use crate::coding::{encode_decs, invalid_decisions, Probs, Props, Sym, SymCost, CS};
use crate::kernel::{crc32, crc64, RangeEnc};
use serde::{Deserialize, Serialize};

pub fn lzma_header(p: Props, dict: u32, size_field: Option<u64>) -> Vec<u8> {
    let mut v = vec![p.byte()];
    v.extend_from_slice(&dict.to_le_bytes());
    if let Some(s) = size_field {
        v.extend_from_slice(&s.to_le_bytes());
    }
    v
}

// ------------------------------------------------------------------------ LZMA2

/// Abstract LZMA2 chunk (the alphabet of `Lzma2.tla`).
#[derive(Clone, Debug, Serialize, Deserialize, PartialEq)]
#[serde(tag = "k", rename_all = "lowercase")]
pub enum Chunk {
    /// uncompressed chunk; reset = dictionary reset (control 1) or not (control 2)
    Raw { reset: bool, data: Vec<u8> },
    /// LZMA chunk; class 0..3 = (control >> 5) & 3; props given iff class >= 2
    Lzma {
        class: u8,
        props: Option<Props>,
        prog: Vec<Sym>,
    },
}

/// State an LZMA2 *encoder* carries between chunks, exactly as the format says.
#[derive(Clone, Default)]
pub struct L2State {
    pub cs: CS,
    pub probs: Probs,
    pub props: Option<Props>,
    /// everything decoded so far (across dictionary resets)
    pub total: Vec<u8>,
}

pub struct L2Chunk {
    pub bytes: Vec<u8>,
    pub unpacked: usize,
    pub packed: usize,
    pub costs: Vec<SymCost>,
    /// offset of the payload inside `bytes`
    pub payload_off: usize,
    /// first invalid symbol (coded, not applied), if any
    pub invalid_at: Option<usize>,
}

impl L2State {
    /// Serialise one chunk, updating the carried state per the LZMA2 format:
    /// class 3 / raw-reset: history cleared; class >= 1: state+probabilities reset;
    /// class >= 2: new props.  Raw chunks leave `st`, `rep` and probabilities untouched.
    pub fn push(&mut self, c: &Chunk) -> L2Chunk {
        match c {
            Chunk::Raw { reset, data } => {
                assert!(!data.is_empty() && data.len() <= 65536);
                if *reset {
                    self.total.extend_from_slice(&[]);
                    self.cs.out.clear();
                }
                let mut b = vec![if *reset { 1 } else { 2 }];
                b.extend_from_slice(&((data.len() - 1) as u16).to_be_bytes());
                b.extend_from_slice(data);
                self.cs.out.extend_from_slice(data);
                self.total.extend_from_slice(data);
                L2Chunk {
                    unpacked: data.len(),
                    packed: data.len(),
                    costs: vec![],
                    payload_off: 3,
                    bytes: b,
                    invalid_at: None,
                }
            }
            Chunk::Lzma { class, props, prog } => {
                if *class == 3 {
                    self.cs.out.clear();
                }
                if *class >= 1 {
                    self.cs.st = 0;
                    self.cs.rep = [0; 4];
                    self.probs.reset();
                }
                if *class >= 2 {
                    self.props = Some(props.expect("class >= 2 needs props"));
                }
                let p = self.props.unwrap_or(Props { lc: 0, lp: 0, pb: 0 });
                let mut enc = RangeEnc::new();
                let o0 = self.cs.out.len();
                let mut costs = vec![];
                let mut invalid_at = None;
                for (i, s) in prog.iter().enumerate() {
                    let n0 = enc.norms;
                    let oo = self.cs.out.len();
                    if !self.cs.valid(s) {
                        let d = invalid_decisions(&self.cs, s, p);
                        encode_decs(&mut enc, &mut self.probs, &d);
                        costs.push(SymCost {
                            bytes: (enc.norms - n0) as u32,
                            out: 0,
                        });
                        invalid_at = Some(i);
                        break;
                    }
                    let d = self.cs.decisions(s, p);
                    encode_decs(&mut enc, &mut self.probs, &d);
                    self.cs.apply(s);
                    costs.push(SymCost {
                        bytes: (enc.norms - n0) as u32,
                        out: (self.cs.out.len() - oo) as u32,
                    });
                }
                let payload = enc.finish();
                let unpacked = self.cs.out.len() - o0;
                let new = self.cs.out[o0..].to_vec();
                self.total.extend_from_slice(&new);
                let bytes = lzma2_chunk_header(*class, unpacked.max(1), payload.len(), if *class >= 2 { Some(p) } else { None });
                let off = bytes.len();
                let mut b = bytes;
                b.extend_from_slice(&payload);
                L2Chunk {
                    bytes: b,
                    unpacked,
                    packed: payload.len(),
                    costs,
                    payload_off: off,
                    invalid_at,
                }
            }
        }
    }
}

pub fn lzma2_chunk_header(class: u8, unpacked: usize, packed: usize, props: Option<Props>) -> Vec<u8> {
    assert!(unpacked >= 1 && unpacked <= (1 << 21));
    assert!(packed >= 1 && packed <= (1 << 16));
    let u = unpacked - 1;
    let mut b = vec![0x80 | (class << 5) | ((u >> 16) as u8 & 0x1F)];
    b.extend_from_slice(&((u & 0xFFFF) as u16).to_be_bytes());
    b.extend_from_slice(&((packed - 1) as u16).to_be_bytes());
    if let Some(p) = props {
        b.push(p.byte());
    }
    b
}

/// Serialise a chunk sequence + end byte. Returns (stream, expected output, per-chunk info).
pub fn lzma2_stream(chunks: &[Chunk]) -> (Vec<u8>, Vec<u8>, Vec<L2Chunk>) {
    let mut st = L2State::default();
    let mut out = vec![];
    let mut infos = vec![];
    for c in chunks {
        let ch = st.push(c);
        out.extend_from_slice(&ch.bytes);
        infos.push(ch);
    }
    out.push(0);
    (out, st.total, infos)
}

// ------------------------------------------------------------------------ XZ

pub fn varint(mut v: u64) -> Vec<u8> {
    let mut o = vec![];
    loop {
        let b = (v & 0x7F) as u8;
        v >>= 7;
        if v == 0 {
            o.push(b);
            break;
        }
        o.push(b | 0x80);
    }
    o
}

pub fn check_len(id: u8) -> usize {
    match id {
        0 => 0,
        1..=3 => 4,
        4..=6 => 8,
        7..=9 => 16,
        10..=12 => 32,
        _ => 64,
    }
}

/// One block of an abstract .xz file; every field can be overridden to produce
/// a mutated file (CRC fields are recomputed unless explicitly overridden).
#[derive(Clone, Debug, Serialize, Deserialize, Default)]
pub struct XzBlock {
    /// LZMA2 payload bytes (already serialised)
    pub payload: Vec<u8>,
    /// what the payload decodes to
    pub content: Vec<u8>,
    /// real block header size in bytes (multiple of 4, >= minimal), 0 = minimal
    pub hsize: usize,
    pub has_packed: bool,
    pub has_unpacked: bool,
    // ---- overrides (None = correct value) ----
    pub packed_decl: Option<u64>,
    pub unpacked_decl: Option<u64>,
    pub flags_or: u8,
    pub filter_id: Option<u64>,
    pub filter_props: Option<Vec<u8>>,
    /// declared size of the filter properties when it should differ from what follows (None = the real length)
    #[serde(default)]
    pub props_size_decl: Option<u64>,
    pub hsize_byte: Option<u8>,
    /// value of a header padding byte (None = 0)
    pub hpad_byte: Option<u8>,
    /// non-zero padding pattern id (1..4, see `pad_pattern`) for header / block padding
    pub hpad_pat: u8,
    pub bpad_pat: u8,
    pub hcrc_xor: u32,
    pub bpad_byte: Option<u8>,
    /// number of block padding bytes (None = correct)
    pub bpad_len: Option<usize>,
    pub check_xor: u64,
    /// extra filters placed *before* LZMA2 (id, props)
    pub extra_filters: Vec<(u64, Vec<u8>)>,
}

#[derive(Clone, Debug, Serialize, Deserialize, Default)]
pub struct XzFile {
    pub check: u8,
    pub blocks: Vec<XzBlock>,
    // ---- overrides ----
    pub hmagic_xor: u8,
    pub hflags0: u8,
    /// check id written to the stream header when it should differ from the one the file is built with
    pub hcheck_override: Option<u8>,
    pub hcrc_xor: u32,
    pub idx_count: Option<u64>,
    /// write a self-consistent index that lists only the first k blocks
    #[serde(default)]
    pub idx_keep: Option<usize>,
    /// records wrong per block, totals right: 1 = first two swapped, 2 = four unpadded bytes moved from the
    /// second to the first, 3 = one uncompressed byte moved
    #[serde(default)]
    pub idx_perm: u8,
    /// override (record index, which: 0 unpadded / 1 unpacked, value)
    pub idx_rec: Option<(usize, u8, u64)>,
    /// add (record index, which, delta) to the correct value
    pub idx_rec_add: Option<(usize, u8, u64)>,
    pub idx_pad_byte: Option<u8>,
    pub idx_pad_pat: u8,
    /// OR-ed into the second stream-flags byte of the header / footer (reserved high nibble)
    pub hflags1_or: u8,
    pub fflags1_or: u8,
    pub idx_crc_xor: u32,
    pub backward: Option<u32>,
    pub fflags0: u8,
    pub fcheck: Option<u8>,
    pub fcrc_xor: u32,
    pub fmagic_xor: u8,
    pub trailing: Vec<u8>,
    /// use non-minimal varint encodings of this many extra bytes for index sizes
    pub varint_pad: usize,
}

/// Concrete ways for a padding field of `n` bytes to be "not all zero":
/// 1: last byte 1; 2: first byte 0x80; 3: every byte 0x41 (XOR-cancels for even n);
/// 4: bytes 1,2,3,... (1^2^3 = 0 for n = 3).  Returns false when n = 0 (not expressible).
pub fn pad_pattern(pad: &mut [u8], pat: u8) -> bool {
    let n = pad.len();
    if n == 0 || pat == 0 {
        return false;
    }
    match pat {
        1 => pad[n - 1] = 1,
        2 => pad[0] = 0x80,
        3 => {
            for b in pad.iter_mut() {
                *b = 0x41;
            }
        }
        _ => {
            for (i, b) in pad.iter_mut().enumerate() {
                *b = (i + 1) as u8;
            }
        }
    }
    true
}

pub fn check_bytes(id: u8, content: &[u8], xor: u64) -> Vec<u8> {
    match id {
        1 => (crc32(content) ^ xor as u32).to_le_bytes().to_vec(),
        4 => (crc64(content) ^ xor).to_le_bytes().to_vec(),
        _ => {
            // unsupported / unknown: fill with a deterministic pattern of the right length
            let mut v = vec![0x5Au8; check_len(id)];
            if !v.is_empty() {
                v[0] ^= xor as u8;
            }
            v
        }
    }
}

pub struct XzLayout {
    pub bytes: Vec<u8>,
    /// (name, start, end) of every field, for flip classification
    pub fields: Vec<(String, usize, usize)>,
    pub index_size: usize,
}

impl XzFile {
    pub fn content(&self) -> Vec<u8> {
        let mut v = vec![];
        for b in &self.blocks {
            v.extend_from_slice(&b.content);
        }
        v
    }

    pub fn serialize(&self) -> XzLayout {
        let mut o: Vec<u8> = vec![];
        let mut fields = vec![];
        let mut mark = |name: &str, s: usize, e: usize| fields.push((name.to_string(), s, e));
        // stream header
        let mut magic = vec![0xFD, 0x37, 0x7A, 0x58, 0x5A, 0x00];
        magic[0] ^= self.hmagic_xor;
        o.extend_from_slice(&magic);
        mark("hmagic", 0, 6);
        let flags = [self.hflags0, self.hcheck_override.unwrap_or(self.check) | self.hflags1_or];
        o.extend_from_slice(&flags);
        mark("hflags", 6, 8);
        o.extend_from_slice(&(crc32(&flags) ^ self.hcrc_xor).to_le_bytes());
        mark("hcrc", 8, 12);
        // blocks
        let mut recs: Vec<(u64, u64)> = vec![];
        for (bi, b) in self.blocks.iter().enumerate() {
            let start = o.len();
            let mut h: Vec<u8> = vec![];
            let nfilters = 1 + b.extra_filters.len();
            let mut fl = (nfilters as u8 - 1) & 3;
            if b.has_packed {
                fl |= 0x40;
            }
            if b.has_unpacked {
                fl |= 0x80;
            }
            fl |= b.flags_or;
            h.push(fl);
            if b.has_packed {
                h.extend_from_slice(&varint(b.packed_decl.unwrap_or(b.payload.len() as u64)));
            }
            if b.has_unpacked {
                h.extend_from_slice(&varint(b.unpacked_decl.unwrap_or(b.content.len() as u64)));
            }
            for (id, props) in &b.extra_filters {
                h.extend_from_slice(&varint(*id));
                h.extend_from_slice(&varint(props.len() as u64));
                h.extend_from_slice(props);
            }
            h.extend_from_slice(&varint(b.filter_id.unwrap_or(0x21)));
            let fp = b.filter_props.clone().unwrap_or_else(|| vec![22]);
            h.extend_from_slice(&varint(b.props_size_decl.unwrap_or(fp.len() as u64)));
            h.extend_from_slice(&fp);
            // header = size byte + h + padding + crc32
            let minimal = (1 + h.len() + 4 + 3) / 4 * 4;
            let hsize = if b.hsize == 0 { minimal } else { b.hsize.max(minimal) };
            let padlen = hsize - 4 - 1 - h.len();
            let mut pad = vec![0u8; padlen];
            if let Some(pb) = b.hpad_byte {
                if padlen > 0 {
                    pad[padlen - 1] = pb;
                }
            }
            // for long paddings only the first 3 bytes carry the pattern (keeps it a "padding" fault)
            let pl = padlen.min(3);
            pad_pattern(&mut pad[..pl], b.hpad_pat);
            let szb = b.hsize_byte.unwrap_or((hsize / 4 - 1) as u8);
            let mut hdr = vec![szb];
            hdr.extend_from_slice(&h);
            hdr.extend_from_slice(&pad);
            let crc = crc32(&hdr) ^ b.hcrc_xor;
            o.extend_from_slice(&hdr);
            o.extend_from_slice(&crc.to_le_bytes());
            mark(&format!("b{}.header", bi), start, o.len() - 4);
            mark(&format!("b{}.hcrc", bi), o.len() - 4, o.len());
            let ps = o.len();
            o.extend_from_slice(&b.payload);
            mark(&format!("b{}.payload", bi), ps, o.len());
            let unp = o.len() - start;
            let padn = b.bpad_len.unwrap_or((4 - unp % 4) % 4);
            let pstart = o.len();
            let mut bp = vec![0u8; padn];
            if padn > 0 {
                bp[padn - 1] = b.bpad_byte.unwrap_or(0);
            }
            pad_pattern(&mut bp, b.bpad_pat);
            o.extend_from_slice(&bp);
            mark(&format!("b{}.pad", bi), pstart, o.len());
            let cs = o.len();
            o.extend_from_slice(&check_bytes(self.check, &b.content, b.check_xor));
            mark(&format!("b{}.check", bi), cs, o.len());
            recs.push(((hsize + b.payload.len() + check_len(self.check)) as u64, b.content.len() as u64));
        }
        // index
        let istart = o.len();
        let mut idx = vec![0u8];
        if let Some(k) = self.idx_keep {
            recs.truncate(k);
        }
        if recs.len() >= 2 {
            match self.idx_perm {
                1 => recs.swap(0, 1),
                2 => {
                    recs[0].0 += 4;
                    recs[1].0 -= 4;
                }
                3 => {
                    recs[0].1 += 1;
                    recs[1].1 -= 1;
                }
                _ => {}
            }
        }
        idx.extend_from_slice(&self.pad_varint(self.idx_count.unwrap_or(recs.len() as u64)));
        for (i, r) in recs.iter().enumerate() {
            let (mut a, mut b) = *r;
            if let Some((ri, which, val)) = self.idx_rec {
                if ri == i {
                    if which == 0 {
                        a = val
                    } else {
                        b = val
                    }
                }
            }
            if let Some((ri, which, delta)) = self.idx_rec_add {
                if ri == i {
                    if which == 0 {
                        a += delta
                    } else {
                        b += delta
                    }
                }
            }
            idx.extend_from_slice(&self.pad_varint(a));
            idx.extend_from_slice(&self.pad_varint(b));
        }
        let ipad = (4 - idx.len() % 4) % 4;
        let mut ip = vec![0u8; ipad];
        if ipad > 0 {
            ip[ipad - 1] = self.idx_pad_byte.unwrap_or(0);
        }
        pad_pattern(&mut ip, self.idx_pad_pat);
        idx.extend_from_slice(&ip);
        let icrc = crc32(&idx) ^ self.idx_crc_xor;
        o.extend_from_slice(&idx);
        o.extend_from_slice(&icrc.to_le_bytes());
        let index_size = o.len() - istart;
        mark("index", istart, o.len() - 4);
        mark("icrc", o.len() - 4, o.len());
        // footer
        let bw = self.backward.unwrap_or((index_size / 4 - 1) as u32);
        let mut f = bw.to_le_bytes().to_vec();
        f.push(self.fflags0);
        f.push(self.fcheck.unwrap_or(self.check) | self.fflags1_or);
        let fcrc = crc32(&f) ^ self.fcrc_xor;
        let fs = o.len();
        o.extend_from_slice(&fcrc.to_le_bytes());
        mark("fcrc", fs, fs + 4);
        o.extend_from_slice(&f);
        mark("fbackward", fs + 4, fs + 8);
        mark("fflags", fs + 8, fs + 10);
        o.push(0x59 ^ self.fmagic_xor);
        o.push(0x5A);
        mark("fmagic", fs + 10, fs + 12);
        let ts = o.len();
        o.extend_from_slice(&self.trailing);
        if !self.trailing.is_empty() {
            mark("trailing", ts, o.len());
        }
        XzLayout {
            bytes: o,
            fields,
            index_size,
        }
    }

    fn pad_varint(&self, v: u64) -> Vec<u8> {
        let mut e = varint(v);
        for _ in 0..self.varint_pad {
            let l = e.len();
            e[l - 1] |= 0x80;
            e.push(0);
        }
        e
    }
}

//! Rust transcription of `spec/LzmaCoding.tla` (which context every bit uses,
//! symbol semantics over an unbounded history).  Never trusted on its own: every
//! run compares it with the TLC export on all model-sized programs
//! (`crosscheck`), a disagreement is a tool error (exit 2), not a violation.

use crate::kernel::{RangeEnc, PROB_INIT};
use serde::{Deserialize, Serialize};
use std::collections::HashMap;

#[derive(Clone, Copy, Debug, PartialEq, Eq, Serialize, Deserialize)]
#[serde(tag = "k", rename_all = "lowercase")]
pub enum Sym {
    Lit { b: u8 },
    /// d = distance (>= 1), n = length (2..=273)
    Match { d: u64, n: u32 },
    Short,
    Rep { r: u8, n: u32 },
    Eos,
    /// end marker carrying a length other than the usual 2 (the marker is defined by its distance alone)
    Eosn { n: u32 },
}

/// Table ids, same names as the strings in LzmaCoding.tla
#[derive(Clone, Copy, Debug, PartialEq, Eq, Hash, PartialOrd, Ord)]
pub enum T {
    IsMatch,
    IsRep,
    IsRepG0,
    IsRepG1,
    IsRepG2,
    IsRep0Long,
    Len,
    LenLow,
    LenMid,
    LenHigh,
    RepLen,
    RepLenLow,
    RepLenMid,
    RepLenHigh,
    PosSlot,
    Spec,
    Align,
    Lit,
    Direct,
}

impl T {
    pub fn from_name(s: &str) -> Option<T> {
        Some(match s {
            "ismatch" => T::IsMatch,
            "isrep" => T::IsRep,
            "isrepg0" => T::IsRepG0,
            "isrepg1" => T::IsRepG1,
            "isrepg2" => T::IsRepG2,
            "isrep0long" => T::IsRep0Long,
            "len" => T::Len,
            "len.low" => T::LenLow,
            "len.mid" => T::LenMid,
            "len.high" => T::LenHigh,
            "replen" => T::RepLen,
            "replen.low" => T::RepLenLow,
            "replen.mid" => T::RepLenMid,
            "replen.high" => T::RepLenHigh,
            "posslot" => T::PosSlot,
            "spec" => T::Spec,
            "align" => T::Align,
            "lit" => T::Lit,
            "direct" => T::Direct,
            _ => return None,
        })
    }
}

#[derive(Clone, Copy, Debug, PartialEq, Eq, Hash)]
pub struct Ctx {
    pub t: T,
    pub sub: u32,
    pub node: u32,
}

#[derive(Clone, Copy, Debug, PartialEq, Eq)]
pub struct Dec {
    pub ctx: Ctx,
    pub b: bool,
}

fn one(t: T, sub: u32, node: u32, b: u32) -> Dec {
    Dec {
        ctx: Ctx { t, sub, node },
        b: b != 0,
    }
}

/// MSB-first bit tree: k bits of v.
fn tree_d(out: &mut Vec<Dec>, t: T, sub: u32, k: u32, v: u32) {
    let mut m = 1u32;
    for i in (0..k).rev() {
        let b = (v >> i) & 1;
        out.push(one(t, sub, m, b));
        m = 2 * m + b;
    }
}

/// LSB-first (reverse) bit tree.
fn rev_tree_d(out: &mut Vec<Dec>, t: T, sub: u32, k: u32, v: u32) {
    let mut m = 1u32;
    let mut v = v;
    for _ in 0..k {
        let b = v & 1;
        out.push(one(t, sub, m, b));
        m = 2 * m + b;
        v >>= 1;
    }
}

fn direct_d(out: &mut Vec<Dec>, k: u32, v: u32) {
    for i in (0..k).rev() {
        out.push(one(T::Direct, 0, 0, (v >> i) & 1));
    }
}

fn len_d(out: &mut Vec<Dec>, rep: bool, ps: u32, l: u32) {
    let (c, lo, mi, hi) = if rep {
        (T::RepLen, T::RepLenLow, T::RepLenMid, T::RepLenHigh)
    } else {
        (T::Len, T::LenLow, T::LenMid, T::LenHigh)
    };
    if l < 8 {
        out.push(one(c, 0, 0, 0));
        tree_d(out, lo, ps, 3, l);
    } else if l < 16 {
        out.push(one(c, 0, 0, 1));
        out.push(one(c, 0, 1, 0));
        tree_d(out, mi, ps, 3, l - 8);
    } else {
        out.push(one(c, 0, 0, 1));
        out.push(one(c, 0, 1, 1));
        tree_d(out, hi, 0, 8, l - 16);
    }
}

pub fn pos_slot(d0: u32) -> u32 {
    if d0 < 4 {
        d0
    } else {
        let n = 31 - d0.leading_zeros();
        2 * n + ((d0 >> (n - 1)) & 1)
    }
}

fn dist_d(out: &mut Vec<Dec>, len_state: u32, d0: u32) {
    let slot = pos_slot(d0);
    tree_d(out, T::PosSlot, len_state, 6, slot);
    if slot >= 4 {
        let nd = (slot >> 1) - 1;
        let base = (2 + (slot & 1)) << nd;
        let extra = d0 - base;
        if slot < 14 {
            rev_tree_d(out, T::Spec, slot, nd, extra);
        } else {
            direct_d(out, nd - 4, extra >> 4);
            rev_tree_d(out, T::Align, 0, 4, extra & 15);
        }
    }
}

fn eos_dist_dn(out: &mut Vec<Dec>, n: u32) {
    tree_d(out, T::PosSlot, (n - 2).min(3), 6, 63);
    direct_d(out, 26, (1 << 26) - 1);
    rev_tree_d(out, T::Align, 0, 4, 15);
}

fn eos_dist_d(out: &mut Vec<Dec>) {
    tree_d(out, T::PosSlot, 0, 6, 63);
    direct_d(out, 26, (1 << 26) - 1);
    rev_tree_d(out, T::Align, 0, 4, 15);
}

/// Matched literal: contexts offset by (1 + match bit) * 256 while still matching.
fn mlit_d(out: &mut Vec<Dec>, ctx: u32, byte: u8, mbyte: u8) {
    let mut m = 1u32;
    let mut matching = true;
    for i in (0..8).rev() {
        let b = ((byte >> i) & 1) as u32;
        let mb = ((mbyte >> i) & 1) as u32;
        let idx = if matching { (1 + mb) * 256 + m } else { m };
        out.push(one(T::Lit, ctx, idx, b));
        m = 2 * m + b;
        matching = matching && mb == b;
    }
}

pub const LIT_NEXT: [usize; 12] = [0, 0, 0, 0, 1, 2, 3, 4, 5, 6, 4, 5];
pub fn match_next(st: usize) -> usize {
    if st < 7 {
        7
    } else {
        10
    }
}
pub fn rep_next(st: usize) -> usize {
    if st < 7 {
        8
    } else {
        11
    }
}
pub fn short_next(st: usize) -> usize {
    if st < 7 {
        9
    } else {
        11
    }
}

/// Decoder-visible coding state over an unbounded history.
/// `pos` is the position counter used for pos_state / literal position bits; it
/// equals `out.len()` for .lzma and "bytes since the last dictionary reset" for LZMA2,
/// which is also what `out` holds (history reachable by matches).
#[derive(Clone, Debug, PartialEq, Eq)]
pub struct CS {
    pub st: usize,
    /// rep distances minus one (d0), most recent first
    pub rep: [u64; 4],
    pub out: Vec<u8>,
}

impl Default for CS {
    fn default() -> Self {
        CS {
            st: 0,
            rep: [0; 4],
            out: Vec::new(),
        }
    }
}

#[derive(Clone, Copy, Debug, PartialEq, Eq, Serialize, Deserialize)]
pub struct Props {
    pub lc: u32,
    pub lp: u32,
    pub pb: u32,
}

impl Props {
    pub fn byte(&self) -> u8 {
        (self.lc + 9 * (self.lp + 5 * self.pb)) as u8
    }
    pub fn from_byte(b: u8) -> Option<Props> {
        if b >= 225 {
            return None;
        }
        let b = b as u32;
        Some(Props {
            lc: b % 9,
            lp: (b / 9) % 5,
            pb: b / 45,
        })
    }
}

impl CS {
    pub fn pos_state(&self, pb: u32) -> u32 {
        (self.out.len() as u64 & ((1u64 << pb) - 1)) as u32
    }
    pub fn lit_ctx(&self, lc: u32, lp: u32) -> u32 {
        let prev = *self.out.last().unwrap_or(&0) as u32;
        (((self.out.len() as u64 & ((1u64 << lp) - 1)) as u32) << lc) + (prev >> (8 - lc))
    }

    pub fn valid(&self, s: &Sym) -> bool {
        let n = self.out.len() as u64;
        match *s {
            Sym::Lit { .. } => self.st < 7 || self.rep[0] + 1 <= n,
            Sym::Match { d, .. } => d <= n,
            Sym::Short => self.rep[0] + 1 <= n,
            Sym::Rep { r, .. } => self.rep[r as usize] + 1 <= n,
            Sym::Eos | Sym::Eosn { .. } => true,
        }
    }

    pub fn decisions(&self, s: &Sym, p: Props) -> Vec<Dec> {
        let mut o = Vec::with_capacity(48);
        let ps = self.pos_state(p.pb);
        let st = self.st as u32;
        match *s {
            Sym::Lit { b } => {
                o.push(one(T::IsMatch, st, ps, 0));
                let ctx = self.lit_ctx(p.lc, p.lp);
                if self.st >= 7 {
                    let mb = self.out[self.out.len() - 1 - self.rep[0] as usize];
                    mlit_d(&mut o, ctx, b, mb);
                } else {
                    tree_d(&mut o, T::Lit, ctx, 8, b as u32);
                }
            }
            Sym::Match { d, n } => {
                o.push(one(T::IsMatch, st, ps, 1));
                o.push(one(T::IsRep, st, 0, 0));
                len_d(&mut o, false, ps, n - 2);
                dist_d(&mut o, (n - 2).min(3), (d - 1) as u32);
            }
            Sym::Short => {
                o.push(one(T::IsMatch, st, ps, 1));
                o.push(one(T::IsRep, st, 0, 1));
                o.push(one(T::IsRepG0, st, 0, 0));
                o.push(one(T::IsRep0Long, st, ps, 0));
            }
            Sym::Rep { r, n } => {
                o.push(one(T::IsMatch, st, ps, 1));
                o.push(one(T::IsRep, st, 0, 1));
                match r {
                    0 => {
                        o.push(one(T::IsRepG0, st, 0, 0));
                        o.push(one(T::IsRep0Long, st, ps, 1));
                    }
                    1 => {
                        o.push(one(T::IsRepG0, st, 0, 1));
                        o.push(one(T::IsRepG1, st, 0, 0));
                    }
                    2 => {
                        o.push(one(T::IsRepG0, st, 0, 1));
                        o.push(one(T::IsRepG1, st, 0, 1));
                        o.push(one(T::IsRepG2, st, 0, 0));
                    }
                    _ => {
                        o.push(one(T::IsRepG0, st, 0, 1));
                        o.push(one(T::IsRepG1, st, 0, 1));
                        o.push(one(T::IsRepG2, st, 0, 1));
                    }
                }
                len_d(&mut o, true, ps, n - 2);
            }
            Sym::Eos => {
                o.push(one(T::IsMatch, st, ps, 1));
                o.push(one(T::IsRep, st, 0, 0));
                len_d(&mut o, false, ps, 0);
                eos_dist_d(&mut o);
            }
            Sym::Eosn { n } => {
                o.push(one(T::IsMatch, st, ps, 1));
                o.push(one(T::IsRep, st, 0, 0));
                len_d(&mut o, false, ps, n - 2);
                eos_dist_dn(&mut o, n);
            }
        }
        o
    }

    fn copy(&mut self, dist: u64, n: u32) {
        for _ in 0..n {
            let b = self.out[self.out.len() - dist as usize];
            self.out.push(b);
        }
    }

    /// Semantic effect of a valid symbol.
    pub fn apply(&mut self, s: &Sym) {
        match *s {
            Sym::Lit { b } => {
                self.st = LIT_NEXT[self.st];
                self.out.push(b);
            }
            Sym::Match { d, n } => {
                self.st = match_next(self.st);
                self.rep = [d - 1, self.rep[0], self.rep[1], self.rep[2]];
                self.copy(d, n);
            }
            Sym::Short => {
                self.st = short_next(self.st);
                let d = self.rep[0] + 1;
                self.copy(d, 1);
            }
            Sym::Rep { r, n } => {
                let d0 = self.rep[r as usize];
                let rp = self.rep;
                self.rep = match r {
                    0 => rp,
                    1 => [rp[1], rp[0], rp[2], rp[3]],
                    2 => [rp[2], rp[0], rp[1], rp[3]],
                    _ => [rp[3], rp[0], rp[1], rp[2]],
                };
                self.st = rep_next(self.st);
                self.copy(d0 + 1, n);
            }
            Sym::Eos | Sym::Eosn { .. } => {}
        }
    }
}

/// Adaptive probability model addressed by context id (default 0x400).
#[derive(Clone, Default)]
pub struct Probs {
    pub m: HashMap<Ctx, u16>,
}

impl Probs {
    pub fn get(&mut self, c: Ctx) -> &mut u16 {
        self.m.entry(c).or_insert(PROB_INIT)
    }
    pub fn reset(&mut self) {
        self.m.clear();
    }
}

pub fn encode_decs(enc: &mut RangeEnc, probs: &mut Probs, decs: &[Dec]) {
    for d in decs {
        if d.ctx.t == T::Direct {
            enc.direct(d.b);
        } else {
            enc.bit(probs.get(d.ctx), d.b);
        }
    }
}

/// Per-symbol record produced while encoding: bytes the decoder consumes for it
/// (normalisations) and bytes of output it produces.
#[derive(Clone, Copy, Debug, Serialize, Deserialize, PartialEq, Eq)]
pub struct SymCost {
    pub bytes: u32,
    pub out: u32,
}

/// Encode a whole program (all symbols must be valid in sequence unless
/// `allow_invalid`, in which case an invalid symbol is still *coded* and encoding
/// stops after it, semantic state is not advanced for it).
pub struct Encoded {
    pub payload: Vec<u8>,
    pub out: Vec<u8>,
    pub costs: Vec<SymCost>,
    /// index of the first invalid symbol, if any
    pub invalid_at: Option<usize>,
    pub final_cs: CS,
}

pub fn encode_program(prog: &[Sym], p: Props) -> Encoded {
    let mut cs = CS::default();
    let mut probs = Probs::default();
    let mut enc = RangeEnc::new();
    let mut costs = Vec::with_capacity(prog.len());
    let mut invalid_at = None;
    for (i, s) in prog.iter().enumerate() {
        let n0 = enc.norms;
        let o0 = cs.out.len();
        if !cs.valid(s) {
            // code it anyway (contexts of an invalid literal need a match byte: use 0)
            let decs = invalid_decisions(&cs, s, p);
            encode_decs(&mut enc, &mut probs, &decs);
            costs.push(SymCost {
                bytes: (enc.norms - n0) as u32,
                out: 0,
            });
            invalid_at = Some(i);
            break;
        }
        let decs = cs.decisions(s, p);
        encode_decs(&mut enc, &mut probs, &decs);
        cs.apply(s);
        costs.push(SymCost {
            bytes: (enc.norms - n0) as u32,
            out: (cs.out.len() - o0) as u32,
        });
    }
    Encoded {
        payload: enc.finish(),
        out: cs.out.clone(),
        costs,
        invalid_at,
        final_cs: cs,
    }
}

/// Decisions for a symbol whose copy source does not exist.  For copies the bits do
/// not depend on history, so `decisions` is fine; an invalid *literal* (state >= 7
/// with rep0 out of range) cannot be coded meaningfully: the decoder must fail
/// before reading any literal bit, so only the is-match bit is produced.
pub fn invalid_decisions(cs: &CS, s: &Sym, p: Props) -> Vec<Dec> {
    match *s {
        Sym::Lit { .. } => vec![one(T::IsMatch, cs.st as u32, cs.pos_state(p.pb), 0)],
        _ => cs.decisions(s, p),
    }
}

//! Driver for C12 (I/O failures) — exhaustive fault positions per input on every encoder and
//! decoder entry point, with the sink/source call log recorded for Trace_Io.tla.

use crate::api::{self, Opt, Verdict};
use crate::build::{lzma2_stream, lzma_header, Chunk, XzBlock, XzFile};
use crate::coding::{self, Props, Sym};
use crate::d_lzma::{random_walk, WalkCfg};
use crate::io::{catch, Caught};
use crate::report::{hash_of, hex, is_prefix, Report};
use rand::rngs::StdRng;
use rand::{Rng, SeedableRng};
use serde_json::{json, Value};
use std::cell::RefCell;
use std::io::{self, BufRead, Read, Write};
use std::rc::Rc;

type Log = Rc<RefCell<Vec<Value>>>;

#[derive(Clone, Default)]
pub struct Faults {
    /// fail the k-th sink write (1-based)
    pub write_at: usize,
    /// return Ok(0) on the k-th sink write
    pub zero_at: usize,
    pub flush_at: usize,
    /// fail the k-th source call
    pub read_at: usize,
    /// accepted bytes per write, cyclic; empty = everything
    pub short: Vec<usize>,
    /// source fragment sizes, cyclic; empty = everything at once
    pub frags: Vec<usize>,
    /// positional answers of the sink taken from a behaviour of MC_IoFaults: the i-th write call accepts
    /// min(r, len) bytes (r > 0), returns Ok(0) (r = 0) or fails (r = -1); calls beyond the script accept everything
    pub wscript: Vec<i64>,
    /// positional answers to flush calls (false = fails)
    pub fscript: Vec<bool>,
}

pub struct LogSink {
    pub data: Vec<u8>,
    expected: Rc<Vec<u8>>,
    log: Log,
    f: Faults,
    pub writes: usize,
    pub flushes: usize,
}

impl Write for LogSink {
    fn write(&mut self, buf: &[u8]) -> io::Result<usize> {
        self.writes += 1;
        let pos = self.data.len();
        let good = pos + buf.len() <= self.expected.len() && &self.expected[pos..pos + buf.len()] == buf;
        if let Some(&r) = self.f.wscript.get(self.writes - 1) {
            if r < 0 {
                self.log.borrow_mut().push(json!({"ev": "W", "len": buf.len(), "r": -1, "good": good}));
                return Err(io::Error::new(io::ErrorKind::Other, "scripted write failure"));
            }
            let n = (r as usize).min(buf.len());
            self.data.extend_from_slice(&buf[..n]);
            self.log.borrow_mut().push(json!({"ev": "W", "len": buf.len(), "r": n, "good": good}));
            return Ok(n);
        }
        if self.f.write_at == self.writes {
            self.log.borrow_mut().push(json!({"ev": "W", "len": buf.len(), "r": -1, "good": good}));
            return Err(io::Error::new(io::ErrorKind::Other, "scripted write failure"));
        }
        if self.f.zero_at == self.writes && !buf.is_empty() {
            self.log.borrow_mut().push(json!({"ev": "W", "len": buf.len(), "r": 0, "good": good}));
            return Ok(0);
        }
        let mut n = buf.len();
        if !self.f.short.is_empty() {
            n = n.min(self.f.short[(self.writes - 1) % self.f.short.len()].max(1));
        }
        self.data.extend_from_slice(&buf[..n]);
        self.log.borrow_mut().push(json!({"ev": "W", "len": buf.len(), "r": n, "good": good}));
        Ok(n)
    }
    fn flush(&mut self) -> io::Result<()> {
        self.flushes += 1;
        if self.f.fscript.get(self.flushes - 1) == Some(&false) {
            self.log.borrow_mut().push(json!({"ev": "F", "ok": false}));
            return Err(io::Error::new(io::ErrorKind::Other, "scripted flush failure"));
        }
        if self.f.flush_at == self.flushes {
            self.log.borrow_mut().push(json!({"ev": "F", "ok": false}));
            return Err(io::Error::new(io::ErrorKind::Other, "scripted flush failure"));
        }
        self.log.borrow_mut().push(json!({"ev": "F", "ok": true}));
        Ok(())
    }
}

pub struct LogReader<'a> {
    data: &'a [u8],
    pos: usize,
    cur_end: usize,
    fi: usize,
    log: Log,
    f: Faults,
    pub calls: usize,
}

impl<'a> LogReader<'a> {
    fn tick(&mut self) -> io::Result<()> {
        self.calls += 1;
        if self.f.read_at == self.calls {
            self.log.borrow_mut().push(json!({"ev": "R", "ok": false}));
            return Err(io::Error::new(io::ErrorKind::Other, "scripted read failure"));
        }
        self.log.borrow_mut().push(json!({"ev": "R", "ok": true}));
        Ok(())
    }
    fn expose(&mut self) {
        if self.cur_end <= self.pos {
            let f = if self.f.frags.is_empty() { usize::MAX / 2 } else { self.f.frags[self.fi % self.f.frags.len()].max(1) };
            self.fi += 1;
            self.cur_end = self.pos.saturating_add(f).min(self.data.len());
        }
    }
}

impl<'a> Read for LogReader<'a> {
    fn read(&mut self, buf: &mut [u8]) -> io::Result<usize> {
        self.tick()?;
        if buf.is_empty() {
            return Ok(0);
        }
        self.expose();
        let n = (self.cur_end - self.pos).min(buf.len());
        buf[..n].copy_from_slice(&self.data[self.pos..self.pos + n]);
        self.pos += n;
        Ok(n)
    }
}
impl<'a> BufRead for LogReader<'a> {
    fn fill_buf(&mut self) -> io::Result<&[u8]> {
        self.tick()?;
        self.expose();
        Ok(&self.data[self.pos..self.cur_end])
    }
    fn consume(&mut self, amt: usize) {
        self.pos += amt;
    }
}

#[derive(Clone, Copy, Debug, PartialEq)]
pub enum Api {
    LzmaDec(Opt),
    Lzma2Dec,
    XzDec,
    LzmaEnc(u8), // 0: header None (marker), 1: header Some(len), 2: skip header
    Lzma2Enc,
    XzEnc,
    RawLzma2,
    StreamDec,
}

impl Api {
    fn must_flush(&self) -> bool {
        // "the LZMA and LZMA2 decoders flush the sink": whether Stream::finish (which hands the sink back to the caller)
        // is one of them is an interpretation - not demanded
        matches!(self, Api::LzmaDec(_) | Api::Lzma2Dec | Api::RawLzma2)
    }
    fn name(&self) -> String {
        format!("{:?}", self)
    }
}

struct RunOut {
    verdict: Verdict,
    msg: String,
    sink: Vec<u8>,
    writes: usize,
    flushes: usize,
    reads: usize,
    log: Vec<Value>,
}

fn run_api(a: Api, input: &[u8], expected: &Rc<Vec<u8>>, f: &Faults) -> RunOut {
    let log: Log = Rc::new(RefCell::new(vec![]));
    let mut sink = LogSink { data: vec![], expected: expected.clone(), log: log.clone(), f: f.clone(), writes: 0, flushes: 0 };
    let mut rd = LogReader { data: input, pos: 0, cur_end: 0, fi: 0, log: log.clone(), f: f.clone(), calls: 0 };
    let c = catch(|| -> Result<(), String> {
        match a {
            Api::LzmaDec(opt) => lzma_rs::lzma_decompress_with_options(&mut rd, &mut sink, &api::options(opt, None, false)).map_err(|e| format!("{:?}", e)),
            Api::Lzma2Dec => lzma_rs::lzma2_decompress(&mut rd, &mut sink).map_err(|e| format!("{:?}", e)),
            Api::RawLzma2 => lzma_rs::decompress::raw::Lzma2Decoder::new().decompress(&mut rd, &mut sink).map_err(|e| format!("{:?}", e)),
            Api::XzDec => lzma_rs::xz_decompress(&mut rd, &mut sink).map_err(|e| format!("{:?}", e)),
            Api::LzmaEnc(k) => {
                let us = match k {
                    0 => lzma_rs::compress::UnpackedSize::WriteToHeader(None),
                    1 => lzma_rs::compress::UnpackedSize::WriteToHeader(Some(input.len() as u64)),
                    _ => lzma_rs::compress::UnpackedSize::SkipWritingToHeader,
                };
                lzma_rs::lzma_compress_with_options(&mut rd, &mut sink, &lzma_rs::compress::Options { unpacked_size: us }).map_err(|e| format!("{:?}", e))
            }
            Api::Lzma2Enc => lzma_rs::lzma2_compress(&mut rd, &mut sink).map_err(|e| format!("{:?}", e)),
            Api::XzEnc => lzma_rs::xz_compress(&mut rd, &mut sink).map_err(|e| format!("{:?}", e)),
            Api::StreamDec => {
                // the source side is ours: feed in pieces of 37 bytes
                let mut s = lzma_rs::decompress::Stream::new(&mut sink);
                let mut err = None;
                for piece in input.chunks(37) {
                    if let Err(e) = s.write_all(piece) {
                        err = Some(format!("{:?}", e));
                        break;
                    }
                    // every other input: the caller flushes the Stream after each piece (also right before finish)
                    if input.len() % 2 == 1 {
                        if let Err(e) = s.flush() {
                            // the caller gives up: going on to finish() after a failed flush would be the DRIVER
                            // touching the sink after a failure, not the library
                            return Err(format!("{:?}", e));
                        }
                    }
                }
                let fin = s.finish();
                match (err, fin) {
                    (Some(e), _) => Err(e),
                    (None, Err(e)) => Err(format!("{:?}", e)),
                    (None, Ok(_)) => Ok(()),
                }
            }
        }
    });
    let (verdict, msg) = match c {
        Caught::Done(Ok(())) => (Verdict::Ok, String::new()),
        Caught::Done(Err(m)) => (Verdict::Err, m),
        Caught::Panic(m) => (Verdict::Panic, m),
    };
    let l = log.borrow().clone();
    RunOut { verdict, msg, sink: sink.data.clone(), writes: sink.writes, flushes: sink.flushes, reads: rd.calls, log: l }
}

fn sample_inputs(rng: &mut StdRng, a: Api, which: usize) -> (Vec<u8>, String) {
    // plaintext for encoders / compressed stream for decoders
    let plain_len = [0usize, 1, 7, 60, 300][which % 5];
    let plain: Vec<u8> = (0..plain_len).map(|i| if which % 2 == 0 { (i % 7) as u8 * 30 } else { rng.gen() }).collect();
    let walk = |rng: &mut StdRng, n: usize, maxd: u64| -> Vec<Sym> {
        random_walk(rng, &WalkCfg { nsyms: n, props: Props { lc: 3, lp: 0, pb: 2 }, max_dist: maxd, lit_alphabet: 5 })
    };
    match a {
        Api::LzmaEnc(_) | Api::Lzma2Enc | Api::XzEnc => (plain, format!("plain{}", plain_len)),
        Api::LzmaDec(opt) => {
            let p = Props { lc: 3, lp: 0, pb: 2 };
            // output of several KiB with dict 4096: the window wraps and flushes more than once
            // 0 symbols: empty plaintext, where flushing (and a failing flush) is all there is to observe
            let n = [3usize, 0, 1500, 40, 400][which % 5];
            let mut prog = if n == 0 { vec![] } else { walk(rng, n, 4096) };
            let enc0 = coding::encode_program(&prog, p);
            let len = enc0.out.len() as u64;
            let (field, marker) = match opt {
                Opt::ReadFromHeader => if which % 2 == 0 { (Some(u64::MAX), true) } else { (Some(len), false) },
                Opt::ReadHeaderButUseProvided { .. } => (Some(0), false),
                Opt::UseProvided { .. } => (None, false),
            };
            if marker {
                prog.push(Sym::Eos);
            }
            let enc = coding::encode_program(&prog, p);
            let mut d = lzma_header(p, 4096, field);
            d.extend_from_slice(&enc.payload);
            (d, format!("lzma/{}syms/out{}", n, len))
        }
        Api::StreamDec => {
            let p = Props { lc: 3, lp: 0, pb: 2 };
            let n = [3usize, 0, 1500, 40, 400][which % 5];
            let mut prog = if n == 0 { vec![] } else { walk(rng, n, 4096) };
            prog.push(Sym::Eos);
            let enc = coding::encode_program(&prog, p);
            let mut d = lzma_header(p, 4096, Some(u64::MAX));
            d.extend_from_slice(&enc.payload);
            (d, format!("lzma-stream/{}syms", n))
        }
        Api::Lzma2Dec | Api::RawLzma2 => {
            let p = Props { lc: 3, lp: 0, pb: 2 };
            let mut chunks = vec![Chunk::Raw { reset: true, data: (0..(1 + which * 13 % 90)).map(|i| i as u8).collect() }];
            chunks.push(Chunk::Lzma { class: 3, props: Some(p), prog: walk(rng, 30 + which * 7, 64) });
            if which % 2 == 0 {
                chunks.push(Chunk::Raw { reset: true, data: vec![5; 10] });
                chunks.push(Chunk::Lzma { class: 2, props: Some(Props { lc: 0, lp: 1, pb: 0 }), prog: vec![Sym::Match { d: 3, n: 40 }, Sym::Lit { b: 1 }] });
            }
            let (s, _, _) = lzma2_stream(&chunks);
            (s, format!("lzma2/{}chunks", chunks.len()))
        }
        Api::XzDec => {
            let mut f = XzFile { check: [0u8, 1, 4][which % 3], ..Default::default() };
            for b in 0..(which % 3) + 1 {
                let chunks = vec![Chunk::Raw { reset: true, data: (0..(5 + b * 11 + which)).map(|i| (i * 3) as u8).collect() }];
                let (s, o, _) = lzma2_stream(&chunks);
                f.blocks.push(XzBlock { payload: s, content: o, has_packed: b % 2 == 0, has_unpacked: which % 2 == 0, ..Default::default() });
            }
            (f.serialize().bytes, format!("xz/{}blocks/check{}", f.blocks.len(), f.check))
        }
    }
}

fn opt_for(a: Api, input: &[u8]) -> Api {
    // size-carrying options need the true size: decode once with a huge size to learn it
    match a {
        Api::LzmaDec(Opt::ReadHeaderButUseProvided { .. }) | Api::LzmaDec(Opt::UseProvided { .. }) => {
            let with_hdr = matches!(a, Api::LzmaDec(Opt::ReadHeaderButUseProvided { .. }));
            let hl = if with_hdr { 13 } else { 5 };
            let p = crate::coding::Props::from_byte(input[0]).unwrap();
            let r = crate::refdec::decode(&input[hl..], p, 4096, Some(u64::MAX), None).unwrap();
            let n = Some(r.out.len() as u64);
            if with_hdr { Api::LzmaDec(Opt::ReadHeaderButUseProvided { n }) } else { Api::LzmaDec(Opt::UseProvided { n }) }
        }
        _ => a,
    }
}

/// Fault scripts = finished behaviours of MC_IoFaults (the sink's answers in call order).
fn load_tlc_scripts(path: Option<&str>, rep: &mut Report) -> Vec<(Vec<i64>, Vec<bool>)> {
    let mut v: Vec<(Vec<i64>, Vec<bool>)> = vec![];
    if let Some(p) = path {
        for l in crate::d_lzma::tlc_json_lines(p, "IO") {
            if let Ok(j) = serde_json::from_str::<Value>(&l) {
                let sc: Vec<i64> = j["script"].as_array().map(|a| a.iter().map(|x| x.as_i64().unwrap_or(1)).collect()).unwrap_or_default();
                let ws: Vec<i64> = sc.iter().cloned().filter(|x| x.abs() != 100).collect();
                let fs: Vec<bool> = sc.iter().filter(|x| x.abs() == 100).map(|x| *x > 0).collect();
                // fault-free scripts without short writes add nothing
                if ws.iter().all(|&r| r >= 3) && fs.iter().all(|&b| b) {
                    continue;
                }
                if !v.contains(&(ws.clone(), fs.clone())) {
                    v.push((ws, fs));
                }
            }
        }
        rep.add("tlc_fault_scripts", v.len() as u64);
    }
    v
}

pub fn run(prop: &str, seed: u64, ninputs: usize, trace_path: Option<&str>, export: Option<&str>, rep: &mut Report) {
    let tlc_scripts = load_tlc_scripts(export, rep);
    let mut rng = StdRng::seed_from_u64(seed ^ 0x10f);
    let mut trace: Vec<String> = vec![];
    let apis = [
        Api::LzmaDec(Opt::ReadFromHeader),
        Api::LzmaDec(Opt::ReadHeaderButUseProvided { n: None }),
        Api::LzmaDec(Opt::UseProvided { n: None }),
        Api::Lzma2Dec,
        Api::XzDec,
        Api::LzmaEnc(0),
        Api::LzmaEnc(1),
        Api::LzmaEnc(2),
        Api::Lzma2Enc,
        Api::XzEnc,
        Api::RawLzma2,
        Api::StreamDec,
    ];
    // inputs on which the range encoder resolves a run of pending 0xFF bytes by a carry (found offline, see
    // d_carry.rs): the place where its hand-over to the sink takes more than one byte per step
    let mut carry_inputs: Vec<(Vec<u8>, String)> = vec![];
    let cpath = std::env::var("LZVERIF_CORPUS").unwrap_or_else(|_| "/verif/corpus/enc_edge_inputs.json".to_string());
    if let Ok(t) = std::fs::read_to_string(&cpath) {
        if let Ok(v) = serde_json::from_str::<Value>(&t) {
            for e in v["inputs"].as_array().cloned().unwrap_or_default() {
                if let (Some(h), Some(b)) = (e["input_hex"].as_str(), e["boundary"].as_str()) {
                    if b.starts_with("carry through") {
                        carry_inputs.push((crate::report::unhex(h), format!("corpus:{}", b.replace(' ', "-"))));
                    }
                }
            }
        }
    }
    rep.add("encoder_carry_corpus_inputs", carry_inputs.len() as u64);
    for a in apis.iter().cloned() {
        let mut inputs: Vec<(Vec<u8>, String)> = (0..ninputs).map(|which| sample_inputs(&mut rng, a, which)).collect();
        if matches!(a, Api::LzmaEnc(_)) && !carry_inputs.is_empty() {
            let take = if ninputs > 20 { carry_inputs.len() } else { 5 };
            for k in 0..take {
                inputs.push(carry_inputs[(seed as usize + k * 3 + matches!(a, Api::LzmaEnc(1)) as usize) % carry_inputs.len()].clone());
            }
        }
        for (which, (input, iname)) in inputs.into_iter().enumerate() {
            let a = opt_for(a, &input);
            // fault-free run defines the call counts; its output must be what the oracle says
            let empty = Rc::new(vec![]);
            let probe = run_api(a, &input, &empty, &Faults::default());
            if probe.verdict != Verdict::Ok {
                rep.tool_error(format!("fault-free run of {} on {} failed: {}", a.name(), iname, probe.msg));
                continue;
            }
            let expected = Rc::new(probe.sink.clone());
            // for decoders cross-check with the spec oracle
            let oracle_out: Option<Vec<u8>> = oracle_for(a, &input);
            if let Some(oo) = oracle_out {
                if oo.len() > expected.len() && oo.starts_with(&expected[..]) {
                    // "on success every output byte has been handed to the sink": the fault-free run returned Ok with
                    // a strict prefix of what the stream decodes to - bytes are missing, which is C12's own clause
                    rep.violation(prop, format!("{} [{}]: returned Ok but the sink holds {} bytes, a strict prefix of the {} bytes the stream decodes to", a.name(), iname, expected.len(), oo.len()),
                        json!({"kind": "io", "api": a.name(), "input_hex": hex(&input), "script": "none", "faults": {}}));
                    continue;
                }
                if oo != *expected {
                    // what the correct output IS is C01 / C02's text; C12 needs a reference and cannot use this one
                    rep.drift(format!("(C01/C02 clause seen while checking {}) fault-free output of {} differs from the specification's output", prop, a.name()), json!({"api": a.name()}));
                    continue;
                }
            }
            let mut scripts: Vec<(String, Faults)> = vec![("none".into(), Faults::default())];
            let wstep = if probe.writes > 150 { probe.writes / 75 } else { 1 };
            for k in 1..=probe.writes {
                if k % wstep != 0 && k > 5 && k != probe.writes {
                    continue;
                }
                scripts.push((format!("write#{}", k), Faults { write_at: k, ..Default::default() }));
                if k <= 3 || k == probe.writes {
                    scripts.push((format!("zero#{}", k), Faults { zero_at: k, ..Default::default() }));
                }
            }
            for k in 1..=probe.flushes {
                scripts.push((format!("flush#{}", k), Faults { flush_at: k, ..Default::default() }));
            }
            let rstep = if probe.reads > 400 { probe.reads / 200 } else { 1 };
            let mut k = 1;
            while k <= probe.reads {
                scripts.push((format!("read#{}", k), Faults { read_at: k, ..Default::default() }));
                k += rstep;
            }
            scripts.push((format!("read#{}", probe.reads), Faults { read_at: probe.reads, ..Default::default() }));
            // byte-wise source: one fault position per input byte at the start (header fields, preamble)
            for k in 1..=40usize {
                scripts.push((format!("read#{}@bytewise", k), Faults { read_at: k, frags: vec![1], ..Default::default() }));
            }
            for sp in [vec![1usize], vec![3], vec![1, 7, 2], vec![rng.gen_range(1..50), rng.gen_range(1..9)]] {
                scripts.push((format!("short{:?}", sp), Faults { short: sp.clone(), ..Default::default() }));
                scripts.push((format!("short{:?}+frag", sp), Faults { short: sp, frags: vec![1, 3, 2], ..Default::default() }));
            }
            // short writes combined with a late failure
            if probe.writes >= 1 {
                scripts.push(("short1+write-late".into(), Faults { short: vec![1], write_at: expected.len().max(1), ..Default::default() }));
            }
            // ... and with a failure in the middle of a multi-call hand-over (the buffer being flushed is then
            // partly delivered: whatever the error path does, it must not deliver any of it again)
            for (sp, k) in [(1usize, 2usize), (1, 100), (1, 4000), (7, 2), (7, 300), (64, 3), (64, 40)] {
                if expected.len() > sp * k {
                    scripts.push((format!("short[{}]+write#{}", sp, k), Faults { short: vec![sp], write_at: k, ..Default::default() }));
                }
            }
            for (i, (ws, fs)) in tlc_scripts.iter().enumerate() {
                scripts.push((format!("tlc#{}:w{:?}f{:?}", i, ws, fs), Faults { wscript: ws.clone(), fscript: fs.clone(), ..Default::default() }));
            }
            let mut trace_budget_left = 120usize;
            for (sname, f) in scripts {
                // the encoders' output legitimately depends on how the source fragments its data
                // (one LZMA2 chunk per read): the reference output is the fault-free run under the
                // same fragmentation
                let expected = if f.frags.is_empty() { expected.clone() } else {
                    let fr = run_api(a, &input, &empty, &Faults { frags: f.frags.clone(), ..Default::default() });
                    if fr.verdict != Verdict::Ok {
                        // the fragmenting source alone changes the verdict: C13's text, not C12's
                        rep.drift(format!("(C13 clause seen while checking {}) {} fails under source fragments {:?} without any fault", prop, a.name(), f.frags), json!({"api": a.name()}));
                        continue;
                    }
                    Rc::new(fr.sink)
                };
                let r = run_api(a, &input, &expected, &f);
                // a call that returned an error ...
                let hard_fault = r.log.iter().any(|e| (e["ev"] == "W" && e["r"] == -1) || (e["ev"] == "F" && e["ok"] == false) || (e["ev"] == "R" && e["ok"] == false));
                // ... and a sink that answered Ok(0) to a non-empty buffer: std's write_all turns that into an error, a
                // writer that retries and then delivers everything may as well succeed - both are accepted
                let zero_fault = r.log.iter().any(|e| e["ev"] == "W" && e["r"] == 0 && e["len"].as_u64().unwrap_or(0) > 0);
                let fault_fired = hard_fault || zero_fault;
                let mut vs: Vec<String> = vec![];
                match r.verdict {
                    Verdict::Panic => vs.push(format!("panic: {}", r.msg)),
                    Verdict::Ok => {
                        if hard_fault {
                            vs.push("a sink/source call failed but the API returned Ok".into());
                        } else {
                            if r.sink != *expected {
                                vs.push(format!("returned Ok but the sink holds {} bytes, the complete output has {}", r.sink.len(), expected.len()));
                            }
                            if a.must_flush() {
                                let flushed_ok = r.log.iter().rev().find(|e| e["ev"] == "F" || e["ev"] == "W").map(|e| e["ev"] == "F").unwrap_or(expected.is_empty() && false);
                                let any_flush = r.log.iter().any(|e| e["ev"] == "F");
                                if !(flushed_ok || (expected.is_empty() && any_flush)) {
                                    vs.push("returned Ok without flushing the sink after the last write".into());
                                }
                            }
                        }
                    }
                    Verdict::Err => {
                        if !fault_fired {
                            vs.push(format!("no call failed but the API returned Err: {}", r.msg));
                        }
                    }
                }
                if !is_prefix(&r.sink, &expected) {
                    vs.push("the bytes the sink accepted are not a prefix of the correct output".into());
                }
                if r.log.iter().any(|e| e["ev"] == "W" && e["good"] == false) {
                    vs.push("a buffer offered to the sink is not the continuation of the correct output".into());
                }
                rep.eval(hash_of(&(a.name(), which, sname.clone())), true);
                rep.count(&format!("api:{}", a.name()));
                // trace (bounded: TLC validates ~2000 events/s)
                if r.log.len() <= 400 && trace_budget_left > 0 && trace.len() < 60000 {
                trace_budget_left -= 1;
                trace.push(json!({"ev": "S", "e": expected.len(), "mf": a.must_flush(), "api": a.name(), "input": iname, "script": sname}).to_string());
                for e in &r.log {
                    trace.push(e.to_string());
                }
                if r.verdict != Verdict::Panic {
                    trace.push(json!({"ev": "Ret", "v": if r.verdict == Verdict::Ok { "ok" } else { "err" }}).to_string());
                }
                rep.count("traced_runs");
                }
                if !vs.is_empty() {
                    rep.violation(prop, format!("{} [{} / {}]: {}", a.name(), iname, sname, vs.join("; ")),
                        json!({"kind": "io", "api": a.name(), "input_hex": hex(&input), "script": sname, "faults": {"write_at": f.write_at, "zero_at": f.zero_at, "flush_at": f.flush_at, "read_at": f.read_at, "short": f.short, "frags": f.frags, "wscript": f.wscript, "fscript": f.fscript}}));
                } else if rep.samples.len() < 6 && sname.ends_with("#2") {
                    rep.sample(json!({"api": a.name(), "input": iname, "script": sname, "calls": {"writes": probe.writes, "flushes": probe.flushes, "reads": probe.reads}, "verdict": format!("{:?}", r.verdict), "sink_len": r.sink.len()}));
                }
            }
        }
    }
    rep.add("trace_events", trace.len() as u64);
    if let Some(p) = trace_path {
        std::fs::write(p, trace.join("\n") + "\n").expect("write trace");
        rep.traces.push(p.to_string());
    }
}

fn api_from_name(n: &str) -> Option<Api> {
    Some(match n {
        "Lzma2Dec" => Api::Lzma2Dec,
        "XzDec" => Api::XzDec,
        "Lzma2Enc" => Api::Lzma2Enc,
        "XzEnc" => Api::XzEnc,
        "RawLzma2" => Api::RawLzma2,
        "StreamDec" => Api::StreamDec,
        "LzmaEnc(0)" => Api::LzmaEnc(0),
        "LzmaEnc(1)" => Api::LzmaEnc(1),
        "LzmaEnc(2)" => Api::LzmaEnc(2),
        s if s.starts_with("LzmaDec(ReadHeaderButUseProvided") => Api::LzmaDec(Opt::ReadHeaderButUseProvided { n: None }),
        s if s.starts_with("LzmaDec(UseProvided") => Api::LzmaDec(Opt::UseProvided { n: None }),
        s if s.starts_with("LzmaDec") => Api::LzmaDec(Opt::ReadFromHeader),
        _ => return None,
    })
}

/// What the input decodes to according to the format (decoders only).
fn oracle_for(a: Api, input: &[u8]) -> Option<Vec<u8>> {
    match a {
        Api::LzmaDec(o) => Some(crate::oracle::expect_lzma(input, o, None).out),
        Api::StreamDec => Some(crate::oracle::expect_lzma(input, Opt::ReadFromHeader, None).out),
        Api::Lzma2Dec | Api::RawLzma2 => Some(crate::oracle::expect_lzma2(input).out),
        _ => None,
    }
}

pub fn replay_value(v: &Value, prop: &str, rep: &mut Report) {
    let input = crate::report::unhex(v["input_hex"].as_str().unwrap());
    let a = opt_for(api_from_name(v["api"].as_str().unwrap_or("")).expect("api"), &input);
    let fj = &v["faults"];
    let g = |k: &str| fj[k].as_u64().unwrap_or(0) as usize;
    let lst = |k: &str| -> Vec<usize> { fj[k].as_array().map(|a| a.iter().map(|x| x.as_u64().unwrap() as usize).collect()).unwrap_or_default() };
    let wscript: Vec<i64> = fj["wscript"].as_array().map(|a| a.iter().map(|x| x.as_i64().unwrap_or(1)).collect()).unwrap_or_default();
    let fscript: Vec<bool> = fj["fscript"].as_array().map(|a| a.iter().map(|x| x.as_bool().unwrap_or(true)).collect()).unwrap_or_default();
    let f = Faults { write_at: g("write_at"), zero_at: g("zero_at"), flush_at: g("flush_at"), read_at: g("read_at"), short: lst("short"), frags: lst("frags"), wscript, fscript };
    let empty = Rc::new(vec![]);
    let probe = run_api(a, &input, &empty, &Faults::default());
    if let Some(oo) = oracle_for(a, &input) {
        if probe.verdict == Verdict::Ok && oo.len() > probe.sink.len() && oo.starts_with(&probe.sink[..]) {
            rep.eval(1, true);
            rep.violation(prop, format!("replayed: returned Ok with {} of the {} bytes the stream decodes to", probe.sink.len(), oo.len()), v.clone());
            return;
        }
    }
    let expected = Rc::new(probe.sink.clone());
    let r = run_api(a, &input, &expected, &f);
    // what the log says happened decides (a scripted fault beyond the calls actually made never fires)
    let fired = r.log.iter().any(|e| (e["ev"] == "W" && (e["r"] == -1 || (e["r"] == 0 && e["len"].as_u64().unwrap_or(0) > 0))) || (e["ev"] == "F" && e["ok"] == false) || (e["ev"] == "R" && e["ok"] == false));
    let bad = match r.verdict {
        Verdict::Panic => true,
        Verdict::Ok => fired || r.sink != *expected,
        Verdict::Err => !fired,
    } || !is_prefix(&r.sink, &expected);
    rep.eval(1, true);
    if bad {
        rep.violation(prop, format!("replayed: {:?} {}", r.verdict, r.msg), v.clone());
    }
}

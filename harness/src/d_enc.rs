//! Driver for C04: compression round-trips and is format-conformant for every input.
//! The encoders' output bytes are parsed back into the abstract structure of Encoder.tla
//! (ndjson for Trace_Encoder) and decoded by lzma-rs, by the harness reference decoder and,
//! when the `xz` program is present, by liblzma.

use crate::api::{self, Opt, Verdict};
use crate::coding::{Props, Sym};
use crate::d_reader::LogSrc;
use crate::io::{catch, Caught};
use crate::oracle::{expect_lzma2, Exp};
use crate::refdec::{self, End};
use crate::report::{hash_of, hex, Report};
use rand::rngs::StdRng;
use rand::{Rng, SeedableRng};
use serde_json::{json, Value};
use std::io::Write;

fn content(rng: &mut StdRng, kind: usize, n: usize) -> Vec<u8> {
    match kind % 7 {
        0 => vec![0u8; n],
        1 => vec![0xFFu8; n],
        2 => (0..n).map(|_| rng.gen()).collect(),
        3 => (0..n).map(|i| if (i / 97) % 2 == 0 { 0xFF } else { 0x00 }).collect(),
        4 => (0..n).map(|i| (i % 251) as u8).collect(),
        5 => {
            // long runs that drive probabilities to their limits, then the opposite bits
            let mut v = vec![0xAAu8; n];
            for (i, b) in v.iter_mut().enumerate() {
                if i > n / 2 {
                    *b = 0x55;
                }
                if i % 1000 == 999 {
                    *b = rng.gen();
                }
            }
            v
        }
        _ => (0..n).map(|i| if rng.gen_bool(0.9) { 0xFF } else { (i % 256) as u8 }).collect(),
    }
}

fn xz_cli_decode(data: &[u8], format: &str) -> Option<Result<Vec<u8>, String>> {
    use std::process::{Command, Stdio};
    let mut child = Command::new("xz").args(["-dc", &format!("--format={}", format)]).stdin(Stdio::piped()).stdout(Stdio::piped()).stderr(Stdio::piped()).spawn().ok()?;
    let mut stdin = child.stdin.take()?;
    let d = data.to_vec();
    let h = std::thread::spawn(move || {
        let _ = stdin.write_all(&d);
    });
    let out = child.wait_with_output().ok()?;
    let _ = h.join();
    if out.status.success() {
        Some(Ok(out.stdout))
    } else {
        Some(Err(String::from_utf8_lossy(&out.stderr).to_string()))
    }
}

fn varint_at(d: &[u8], pos: &mut usize) -> Option<u64> {
    let mut v = 0u64;
    for i in 0..9 {
        let b = *d.get(*pos)?;
        *pos += 1;
        v |= ((b & 0x7F) as u64) << (7 * i);
        if b & 0x80 == 0 {
            return Some(v);
        }
    }
    None
}

/// Parse an LZMA2 stream made of uncompressed chunks only. Returns (chunk lens, resets, total bytes incl. end byte).
fn parse_l2_raw(d: &[u8]) -> Option<(Vec<usize>, Vec<bool>, usize)> {
    let mut pos = 0;
    let mut lens = vec![];
    let mut resets = vec![];
    loop {
        let c = *d.get(pos)?;
        pos += 1;
        if c == 0 {
            return Some((lens, resets, pos));
        }
        if c != 1 && c != 2 {
            return None;
        }
        let n = ((*d.get(pos)? as usize) << 8 | *d.get(pos + 1)? as usize) + 1;
        pos += 2 + n;
        if pos > d.len() {
            return None;
        }
        lens.push(n);
        resets.push(c == 1);
    }
}

pub fn run(prop: &str, seed: u64, tier_thorough: bool, trace_path: Option<&str>, rep: &mut Report) {
    let mut rng = StdRng::seed_from_u64(seed ^ 0xe4c);
    let mut trace: Vec<String> = vec![];
    let have_xz = xz_cli_decode(&[], "lzma").is_some();
    rep.add("xz_cli_available", have_xz as u64);
    let mut lens: Vec<usize> = vec![0, 1, 2, 3, 17, 100, 111, 112, 113, 127, 128, 129, 1000, 16367, 16368, 16369, 16383, 16384, 16385, 65535, 65536, 65537];
    if tier_thorough {
        lens.extend_from_slice(&[131071, 131072, 131073, 196608, 300000, 1 << 20, 2097043, 2097151, 2097152, 2097153]);
    } else {
        lens.extend_from_slice(&[131072, 131073]);
    }
    let mut cli_budget = if tier_thorough { 400 } else { 60 };
    // corpus of inputs that put the range encoder exactly on a boundary of its flush test (found offline by
    // `lzverif carrysearch`, see d_carry.rs); ordinary inputs as far as the property is concerned
    let mut corpus: Vec<Vec<u8>> = vec![];
    let cpath = std::env::var("LZVERIF_CORPUS").unwrap_or_else(|_| "/verif/corpus/enc_edge_inputs.json".to_string());
    if let Ok(t) = std::fs::read_to_string(&cpath) {
        if let Ok(v) = serde_json::from_str::<Value>(&t) {
            for e in v["inputs"].as_array().cloned().unwrap_or_default() {
                if let Some(h) = e["input_hex"].as_str() {
                    corpus.push(crate::report::unhex(h));
                }
            }
        }
    }
    rep.add("encoder_boundary_corpus_inputs", corpus.len() as u64);
    for (ci, input) in corpus.iter().enumerate() {
        for (oname, us, dopt) in [
            ("marker", lzma_rs::compress::UnpackedSize::WriteToHeader(None), Opt::ReadFromHeader),
            ("size", lzma_rs::compress::UnpackedSize::WriteToHeader(Some(input.len() as u64)), Opt::ReadFromHeader),
            ("skip", lzma_rs::compress::UnpackedSize::SkipWritingToHeader, Opt::UseProvided { n: Some(input.len() as u64) }),
        ] {
            let mut out = vec![];
            let mut src = &input[..];
            let r = catch(|| lzma_rs::lzma_compress_with_options(&mut src, &mut out, &lzma_rs::compress::Options { unpacked_size: us }));
            let ok = matches!(r, Caught::Done(Ok(())));
            let d1 = api::lzma_bytes(&out, &api::options(dopt, None, false));
            rep.eval(hash_of(&(ci, oname, "corpus")), true);
            if !ok || d1.verdict != Verdict::Ok || d1.out != *input {
                rep.violation(prop, format!("lzma_compress[{}] on corpus input #{} ({} bytes, drives the range encoder onto a flush-test boundary): output does not decode back to the input: {:?} {}", oname, ci, input.len(), d1.verdict, d1.msg),
                    json!({"kind": "enc", "api": "lzma", "opt": oname, "corpus_index": ci, "seed": seed}));
            }
        }
    }
    // EVERY input of at most two bytes (65 793 inputs) and a sample of three-byte inputs, in all three header modes:
    // where the input ends decides what the final flush of the range encoder has to resolve (a carry still
    // outstanding behind pending 0xFF bytes happens for a few inputs in a thousand)
    {
        let mut rng_small = rand::rngs::StdRng::seed_from_u64(seed ^ 0x5a11);
        let mut inputs: Vec<Vec<u8>> = vec![vec![]];
        for a in 0..=255u8 {
            inputs.push(vec![a]);
            for b in 0..=255u8 {
                inputs.push(vec![a, b]);
            }
        }
        for _ in 0..(if tier_thorough { 2_000_000 } else { 60_000 }) {
            inputs.push(vec![rng_small.gen(), rng_small.gen(), rng_small.gen()]);
        }
        let mut bad = 0usize;
        for input in &inputs {
            for (oname, us, dopt) in [
                ("marker", lzma_rs::compress::UnpackedSize::WriteToHeader(None), Opt::ReadFromHeader),
                ("size", lzma_rs::compress::UnpackedSize::WriteToHeader(Some(input.len() as u64)), Opt::ReadFromHeader),
                ("skip", lzma_rs::compress::UnpackedSize::SkipWritingToHeader, Opt::UseProvided { n: Some(input.len() as u64) }),
            ] {
                let mut out = Vec::with_capacity(32);
                let mut src = &input[..];
                let r = catch(|| lzma_rs::lzma_compress_with_options(&mut src, &mut out, &lzma_rs::compress::Options { unpacked_size: us }));
                let ok = matches!(r, Caught::Done(Ok(())));
                // the independent decoder: the reference decoder of the harness (format rules evaluated on bytes)
                let e = crate::oracle::expect_lzma(&out, dopt, None);
                let d1 = api::lzma_bytes(&out, &api::options(dopt, None, false));
                if !ok || d1.verdict != Verdict::Ok || d1.out != *input || e.v == crate::oracle::Exp::Err || (e.v == crate::oracle::Exp::Ok && e.out != *input) {
                    bad += 1;
                    if bad <= 5 {
                        rep.violation(prop, format!("lzma_compress[{}] on the {}-byte input {}: output {} does not decode back to the input (lzma-rs: {:?} {}; reference decoder: {:?} {})", oname, input.len(), crate::report::hex(input), crate::report::hex(&out), d1.verdict, d1.msg, e.v, e.class),
                            json!({"kind": "enc", "api": "lzma", "opt": oname, "input_hex": crate::report::hex(input), "seed": seed}));
                    }
                }
            }
        }
        rep.add("tiny_inputs_exhaustive", inputs.len() as u64);
        rep.eval(hash_of(&("tiny-inputs", inputs.len())), true);
    }
    // inputs longer than the 8 MiB dictionary the .lzma encoder announces: the decoder's window wraps, and the
    // literal right after the wrap takes its context from the last byte of the window
    for (n, oname) in [((8usize << 20) + 4096, "default"), ((8 << 20) + 1, "skip")] {
        let input: Vec<u8> = (0..n).map(|i| 0x41u8.wrapping_add((i % 89) as u8).wrapping_add((i / 8191) as u8) | 0x20).collect();
        let mut out = vec![];
        let mut src = &input[..];
        let r = if oname == "default" {
            catch(|| lzma_rs::lzma_compress(&mut src, &mut out))
        } else {
            catch(|| lzma_rs::lzma_compress_with_options(&mut src, &mut out, &lzma_rs::compress::Options { unpacked_size: lzma_rs::compress::UnpackedSize::SkipWritingToHeader }))
        };
        let d1 = if oname == "default" { api::lzma_plain(&out) } else { api::lzma_bytes(&out, &api::options(Opt::UseProvided { n: Some(n as u64) }, None, false)) };
        rep.eval(hash_of(&(n, oname, "beyond-dictionary")), true);
        if !matches!(r, Caught::Done(Ok(()))) || d1.verdict != Verdict::Ok || d1.out != input {
            rep.violation(prop, format!("lzma_compress[{}] n={} (longer than the 8 MiB dictionary it announces): the output does not decode back to the input: {:?} {} ({} bytes)", oname, n, d1.verdict, d1.msg, d1.out.len()),
                json!({"kind": "enc", "api": "lzma", "opt": oname, "n": n, "seed": seed}));
        }
    }
    // an input of 4 GiB: the index and footer of the .xz container must carry sizes beyond 32 bits (the encoder
    // measures its own output).  The source produces zeros, the sink counts and keeps the tail; the tail is parsed
    // as index + footer and compared with what was written.
    {
        struct Zeros(u64);
        impl std::io::Read for Zeros {
            fn read(&mut self, buf: &mut [u8]) -> std::io::Result<usize> {
                let n = (buf.len() as u64).min(self.0) as usize;
                for b in &mut buf[..n] {
                    *b = 0;
                }
                self.0 -= n as u64;
                Ok(n)
            }
        }
        struct Tail {
            total: u64,
            tail: Vec<u8>,
        }
        impl std::io::Write for Tail {
            fn write(&mut self, buf: &[u8]) -> std::io::Result<usize> {
                self.total += buf.len() as u64;
                if buf.len() >= 64 {
                    self.tail.clear();
                    self.tail.extend_from_slice(&buf[buf.len() - 64..]);
                } else {
                    self.tail.extend_from_slice(buf);
                    let l = self.tail.len();
                    if l > 64 {
                        self.tail.drain(..l - 64);
                    }
                }
                Ok(buf.len())
            }
            fn flush(&mut self) -> std::io::Result<()> {
                Ok(())
            }
        }
        let n: u64 = (1u64 << 32) + 12345;
        let mut src = std::io::BufReader::with_capacity(1 << 16, Zeros(n));
        let mut sink = Tail { total: 0, tail: vec![] };
        let r = catch(|| lzma_rs::xz_compress(&mut src, &mut sink));
        rep.eval(hash_of(&(n, "xz-4GiB")), true);
        let mut vs: Vec<String> = vec![];
        if !matches!(r, Caught::Done(Ok(()))) {
            vs.push("xz_compress failed or panicked on a 4 GiB input".into());
        } else {
            // footer: crc32(4) backward(4) flags(2) "YZ"; index = backward*4+4 bytes before it
            let t = &sink.tail;
            let f = &t[t.len() - 12..];
            let backward = u32::from_le_bytes([f[4], f[5], f[6], f[7]]) as usize;
            let isz = (backward + 1) * 4;
            if f[10] != b'Y' || f[11] != b'Z' {
                vs.push("the emitted file does not end with a stream footer".into());
            } else if isz + 12 > t.len() {
                // an index longer than the tail we kept (several blocks): not examined
                rep.count("xz_4gib_index_not_examined");
            } else {
                let idx = &t[t.len() - 12 - isz..t.len() - 12];
                let mut pos = 1usize;
                let mut rd = |pos: &mut usize| -> u64 {
                    let mut v = 0u64;
                    let mut sh = 0;
                    loop {
                        let b = idx[*pos];
                        *pos += 1;
                        v |= ((b & 0x7F) as u64) << sh;
                        sh += 7;
                        if b & 0x80 == 0 || sh > 63 {
                            return v;
                        }
                    }
                };
                let count = rd(&mut pos);
                let unpadded = rd(&mut pos);
                let unpacked = rd(&mut pos);
                // stream = 12 (header) + block (unpadded + padding to 4) + index + 12 (footer)
                let expect_unpadded_padded = sink.total - 12 - isz as u64 - 12;
                if idx[0] != 0 {
                    vs.push(format!("the index indicator is {}", idx[0]));
                } else if count != 1 {
                    // several blocks: the single-record arithmetic below does not apply
                    rep.count("xz_4gib_index_not_examined");
                } else if unpacked != n {
                    vs.push(format!("the index records an uncompressed size of {} for an input of {} bytes", unpacked, n));
                } else if (unpadded + 3) / 4 * 4 != expect_unpadded_padded {
                    vs.push(format!("the index records an unpadded block size of {}, the block written occupies {} bytes with padding", unpadded, expect_unpadded_padded));
                }
            }
        }
        if !vs.is_empty() {
            rep.violation(prop, format!("xz_compress n={} (beyond 4 GiB): {}", n, vs.join("; ")), json!({"kind": "enc", "api": "xz", "n": n, "seed": seed}));
        }
        rep.count("xz_4gib_input");
    }
    for (li, &n) in lens.iter().enumerate() {
        let kinds: Vec<usize> = if n <= 1000 { (0..7).collect() } else if tier_thorough { vec![0, 1, 2, 3, 5, 6] } else { vec![(li + seed as usize) % 7, 2] };
        for kind in kinds {
            let input = content(&mut rng, kind, n);
            // source fragmentations
            let mut frag_sets: Vec<Vec<usize>> = vec![vec![], vec![65536], vec![rng.gen_range(1..5000), rng.gen_range(1..70000), 1]];
            if n <= 1000 {
                frag_sets.push(vec![1]);
                frag_sets.push(vec![3, 1, 2]);
            } else {
                frag_sets.push(vec![65535, 2]);
                frag_sets.push(vec![40000]);
                if (65535..=65537).contains(&n) && kind % 2 == 0 {
                    frag_sets.push(vec![1]); // one byte per read across the 64 KiB boundary
                }
            }
            for (fi, frags) in frag_sets.iter().enumerate() {
                // ---------------- .lzma, three options ----------------
                for (oi, (oname, us, dopt)) in [
                    ("marker", lzma_rs::compress::UnpackedSize::WriteToHeader(None), Opt::ReadFromHeader),
                    ("size", lzma_rs::compress::UnpackedSize::WriteToHeader(Some(n as u64)), Opt::ReadFromHeader),
                    ("skip", lzma_rs::compress::UnpackedSize::SkipWritingToHeader, Opt::UseProvided { n: Some(n as u64) }),
                    // the plain entry points lzma_compress / lzma_decompress (default options on both sides)
                    ("default", lzma_rs::compress::UnpackedSize::WriteToHeader(None), Opt::ReadFromHeader),
                ]
                .iter()
                .enumerate()
                {
                    if fi > 1 && oi != (fi + li) % 3 && n > 1000 {
                        continue; // big inputs: not every option under every fragmentation
                    }
                    let mut out = vec![];
                    let mut src = LogSrc::new(&input, frags.clone(), false);
                    let plain = *oname == "default";
                    let r = if plain {
                        catch(|| lzma_rs::lzma_compress(&mut src, &mut out))
                    } else {
                        catch(|| lzma_rs::lzma_compress_with_options(&mut src, &mut out, &lzma_rs::compress::Options { unpacked_size: *us }))
                    };
                    let mut vs: Vec<String> = vec![];
                    match r {
                        Caught::Panic(m) => vs.push(format!("lzma_compress panicked: {}", m)),
                        Caught::Done(Err(e)) => vs.push(format!("lzma_compress failed: {:?}", e)),
                        Caught::Done(Ok(())) => {
                            let hl = if *oname == "skip" { 5 } else { 13 };
                            // 1. this library, matching option
                            let d1 = if plain { api::lzma_plain(&out) } else { api::lzma_bytes(&out, &api::options(*dopt, None, false)) };
                            if d1.verdict != Verdict::Ok || d1.out != input {
                                vs.push(format!("lzma_decompress with the matching option does not return the input: {:?} {}", d1.verdict, d1.msg));
                            }
                            // 2. independent conforming decoder
                            if out.len() < hl + 5 {
                                vs.push("output shorter than header + range coder preamble".into());
                            } else if let Some((p, dict, field, _)) = refdec::parse_header(&out, hl == 13) {
                                let size = if *oname == "skip" { Some(n as u64) } else { field };
                                let rr = refdec::decode(&out[hl..], p, dict, size, None).unwrap();
                                let clean_end = match rr.end {
                                    End::Eos { clean } => clean && size.is_none(),
                                    // with a size in effect a conforming decoder stops there: whether the encoder also
                                    // wrote an end marker or flush bytes after it is its own business
                                    End::SizeReached => size == Some(n as u64),
                                    _ => false,
                                };
                                if rr.out != input || !clean_end {
                                    vs.push(format!("an independent decoder does not recover the input from the emitted stream (end: {:?}, {} of {} bytes)", rr.end, rr.out.len(), n));
                                }
                                let litonly = rr.syms.iter().all(|s| matches!(s, Sym::Lit { .. } | Sym::Eos));
                                let nlit = rr.syms.iter().filter(|s| matches!(s, Sym::Lit { .. })).count();
                                let full = n <= 40;
                                let size_field: i64 = if hl == 5 { -2 } else { match field { None => -1, Some(v) => v.min(1 << 30) as i64 } };
                                let mut evj = json!({"ev": "lzma", "n": n, "opt": oname, "hdrLen": hl, "props": out[0], "dict": dict, "sizeField": size_field,
                                    "eos": matches!(rr.end, End::Eos { .. }), "nlit": nlit, "full": full, "input": [], "syms": []});
                                if full {
                                    evj["input"] = json!(input);
                                    evj["syms"] = serde_json::to_value(&rr.syms).unwrap();
                                }
                                if trace.len() < 4000 && !plain {
                                    trace.push(evj.to_string());
                                }
                                if !litonly {
                                    rep.drift("the dumb encoder emitted a non-literal symbol".into(), json!({"n": n}));
                                }
                                let _ = p;
                            } else {
                                vs.push("emitted header is not parseable".into());
                            }
                            // 3. liblzma, when present (cannot take the size out of band)
                            if have_xz && *oname != "skip" && cli_budget > 0 && n <= 200000 {
                                cli_budget -= 1;
                                match xz_cli_decode(&out, "lzma") {
                                    Some(Ok(o)) if o == input => rep.count("liblzma_agreed"),
                                    Some(Ok(_)) => vs.push("liblzma decodes the emitted .lzma stream to different bytes".into()),
                                    Some(Err(e)) => vs.push(format!("liblzma rejects the emitted .lzma stream: {}", e.trim())),
                                    None => {}
                                }
                            }
                            // 4. streaming decoder (marker / size in header)
                            if *oname != "skip" && n <= 70000 {
                                let sr = api::stream_run(&out, &[out.len() / 3, out.len() / 2], &api::options(*dopt, None, false));
                                if sr.verdict != Verdict::Ok || sr.out != input {
                                    vs.push("the streaming decoder does not return the input".into());
                                }
                            }
                        }
                    }
                    rep.eval(hash_of(&(n, kind, fi, oi, "lzma")), true);
                    if !vs.is_empty() {
                        rep.violation(prop, format!("lzma_compress[{}] n={} content#{} frags={:?}: {}", oname, n, kind, frags, vs.join("; ")),
                            json!({"kind": "enc", "api": "lzma", "opt": oname, "n": n, "content": kind, "frags": frags, "seed": seed}));
                    }
                }
                // ---------------- LZMA2 ----------------
                {
                    let mut out = vec![];
                    let mut src = LogSrc::new(&input, frags.clone(), true);
                    let r = catch(|| lzma_rs::lzma2_compress(&mut src, &mut out));
                    let reads: Vec<usize> = src.log.iter().filter(|e| e["ev"] == "read").map(|e| e["got"].as_u64().unwrap() as usize).filter(|g| *g > 0).collect();
                    let mut vs: Vec<String> = vec![];
                    match r {
                        Caught::Panic(m) => vs.push(format!("lzma2_compress panicked: {}", m)),
                        Caught::Done(Err(e)) => vs.push(format!("lzma2_compress failed: {:?}", e)),
                        Caught::Done(Ok(())) => {
                            let (d1, _) = api::lzma2_bytes(&out);
                            if d1.verdict != Verdict::Ok || d1.out != input {
                                vs.push(format!("lzma2_decompress does not return the input: {:?} {}", d1.verdict, d1.msg));
                            }
                            let e = expect_lzma2(&out);
                            if e.v != Exp::Ok || e.out != input || e.consumed != Some(out.len()) {
                                vs.push(format!("an independent LZMA2 decoder does not recover the input ({:?}/{})", e.v, e.class));
                            }
                            match parse_l2_raw(&out) {
                                Some((lens2, resets, total)) => {
                                    if trace.len() < 6000 && reads.len() <= 2000 {
                                        trace.push(json!({"ev": "lzma2", "n": n, "reads": reads, "chunkLens": lens2, "resets": resets, "total": total}).to_string());
                                    }
                                }
                                None => rep.drift("lzma2_compress emitted something other than uncompressed chunks".into(), json!({"n": n})),
                            }
                        }
                    }
                    rep.eval(hash_of(&(n, kind, fi, "lzma2")), true);
                    if !vs.is_empty() {
                        rep.violation(prop, format!("lzma2_compress n={} content#{} frags={:?}: {}", n, kind, frags, vs.join("; ")),
                            json!({"kind": "enc", "api": "lzma2", "n": n, "content": kind, "frags": frags, "seed": seed}));
                    }
                }
                // ---------------- XZ ----------------
                {
                    let mut out = vec![];
                    let mut src = LogSrc::new(&input, frags.clone(), true);
                    let r = catch(|| lzma_rs::xz_compress(&mut src, &mut out));
                    let reads: Vec<usize> = src.log.iter().filter(|e| e["ev"] == "read").map(|e| e["got"].as_u64().unwrap() as usize).filter(|g| *g > 0).collect();
                    let mut vs: Vec<String> = vec![];
                    match r {
                        Caught::Panic(m) => vs.push(format!("xz_compress panicked: {}", m)),
                        Caught::Done(Err(e)) => vs.push(format!("xz_compress failed: {:?}", e)),
                        Caught::Done(Ok(())) => {
                            let d1 = api::xz_bytes(&out);
                            if d1.verdict != Verdict::Ok || d1.out != input {
                                vs.push(format!("xz_decompress does not return the input: {:?} {}", d1.verdict, d1.msg));
                            }
                            // independent conforming decoder (whatever structure the encoder chose)
                            match crate::refxz::decode(&out) {
                                Ok(o) if o == input => {}
                                Ok(o) => vs.push(format!("an independent .xz decoder recovers {} bytes that are not the input ({} bytes)", o.len(), n)),
                                Err(e) => vs.push(format!("an independent .xz decoder rejects the emitted file: {}", e)),
                            }
                            // field parse
                            let parsed = (|| -> Option<Value> {
                                if out.len() < 24 || &out[0..6] != [0xFD, 0x37, 0x7A, 0x58, 0x5A, 0x00] {
                                    return None;
                                }
                                let check = out[7];
                                let hsize = (out[12] as usize + 1) * 4;
                                let l2start = 12 + hsize;
                                let (_, _, l2len) = parse_l2_raw(&out[l2start..])?;
                                let mut pos = l2start + l2len;
                                let mut bpad = 0;
                                while (pos - 12) % 4 != 0 {
                                    if out[pos] != 0 {
                                        return None;
                                    }
                                    pos += 1;
                                    bpad += 1;
                                }
                                let istart = pos;
                                if out[pos] != 0 {
                                    return None;
                                }
                                pos += 1;
                                let idx_n = varint_at(&out, &mut pos)?;
                                let unp = varint_at(&out, &mut pos)?;
                                let unc = varint_at(&out, &mut pos)?;
                                let mut ipad = 0;
                                while (pos - istart) % 4 != 0 {
                                    pos += 1;
                                    ipad += 1;
                                }
                                pos += 4;
                                let idx_size = pos - istart;
                                let backward = u32::from_le_bytes([out[pos + 4], out[pos + 5], out[pos + 6], out[pos + 7]]);
                                if pos + 12 != out.len() {
                                    return None;
                                }
                                Some(json!({"ev": "xz", "n": n, "reads": reads, "check": check, "hsize": hsize, "l2len": l2len, "blockPad": bpad,
                                    "idxN": idx_n, "idxUnpadded": unp, "idxUnpacked": unc, "idxPad": ipad, "backward": backward, "idxSize": idx_size}))
                            })();
                            match parsed {
                                Some(ev) => {
                                    if trace.len() < 8000 && reads.len() <= 2000 {
                                        trace.push(ev.to_string());
                                    }
                                }
                                // which block structure, chunk layout and check type the encoder uses is not C04's business
                                None => rep.drift("xz_compress emitted something other than one block of uncompressed chunks without a check".into(), json!({"n": n})),
                            }
                            // a sink that accepts only part of each write must receive the same file (the encoder
                            // measures its own output for the index and footer)
                            if fi == 0 && n <= 70000 {
                                for short in [1usize, 3, 4096] {
                                    let mut sink = crate::io::FaultSink { short, ..Default::default() };
                                    let mut src2 = &input[..];
                                    let r2 = catch(|| lzma_rs::xz_compress(&mut src2, &mut sink));
                                    if !matches!(r2, Caught::Done(Ok(()))) || sink.data != out {
                                        let d2 = api::xz_bytes(&sink.data);
                                        vs.push(format!("into a sink accepting {} byte(s) per write the emitted file differs from the one written into a Vec ({} vs {} bytes); decoding it back: {:?} {}", short, sink.data.len(), out.len(), d2.verdict, d2.msg));
                                        break;
                                    }
                                }
                            }
                            if have_xz && cli_budget > 0 && n <= 200000 {
                                cli_budget -= 1;
                                match xz_cli_decode(&out, "xz") {
                                    Some(Ok(o)) if o == input => rep.count("liblzma_agreed"),
                                    Some(Ok(_)) => vs.push("liblzma decodes the emitted .xz file to different bytes".into()),
                                    Some(Err(e)) => vs.push(format!("liblzma rejects the emitted .xz file: {}", e.trim())),
                                    None => {}
                                }
                            }
                        }
                    }
                    rep.eval(hash_of(&(n, kind, fi, "xz")), true);
                    if !vs.is_empty() {
                        rep.violation(prop, format!("xz_compress n={} content#{} frags={:?}: {}", n, kind, frags, vs.join("; ")),
                            json!({"kind": "enc", "api": "xz", "n": n, "content": kind, "frags": frags, "seed": seed}));
                    }
                }
            }
            if rep.samples.len() < 5 {
                let cname = ["zeros", "0xFF", "random", "alternating runs", "ramp", "saturate-then-flip", "mostly 0xFF"][kind % 7];
                rep.sample(json!({"n": n, "content": cname, "options": ["marker", "size", "skip"], "fragmentations": frag_sets}));
            }
        }
    }
    rep.add("trace_events", trace.len() as u64);
    if let Some(p) = trace_path {
        std::fs::write(p, trace.join("\n") + "\n").expect("write trace");
        rep.traces.push(p.to_string());
    }
    let _ = (hex(&[]), Props { lc: 0, lp: 0, pb: 0 });
}

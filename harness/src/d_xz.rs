//! Driver for the XZ container (C03, C06, C18): replays every abstract file exported by
//! MC_Xz (well-formed or with one mutated field, CRCs repaired) into xz_decompress, plus
//! exhaustive single-bit flips / truncations of small CRC-carrying files.

use crate::api::{self, Verdict};
use crate::build::{lzma2_stream, Chunk, XzBlock, XzFile};
#[allow(unused_imports)]
use crate::build::Chunk as _ChunkAlias;
use crate::coding::{Props, Sym};
use crate::d_lzma::tlc_json_lines;
use crate::report::{hash_of, hex, is_prefix, unhex, Report};
use rand::rngs::StdRng;
use rand::{Rng, SeedableRng};
use serde::{Deserialize, Serialize};
use serde_json::{json, Value};

/// The payload library shared with MC_Xz.tla (LibDef).  (payload bytes, decoded content)
pub fn payload_lib() -> Vec<(Vec<u8>, Vec<u8>)> {
    let raw = |data: &[u8]| Chunk::Raw { reset: true, data: data.to_vec() };
    let mut v = vec![];
    for n in 1..=4usize {
        let d: Vec<u8> = (0..n).map(|i| b'A' + i as u8).collect();
        let (s, o, _) = lzma2_stream(&[raw(&d)]);
        v.push((s, o));
    }
    v.push((vec![0u8], vec![]));
    let (s, o, _) = lzma2_stream(&[raw(b"xyz"), Chunk::Raw { reset: false, data: b"pq".to_vec() }]);
    v.push((s, o));
    let p = Props { lc: 3, lp: 0, pb: 2 };
    let prog1 = vec![Sym::Lit { b: b'h' }, Sym::Lit { b: b'i' }, Sym::Match { d: 2, n: 5 }, Sym::Lit { b: b'!' }];
    let (s, o, _) = lzma2_stream(&[Chunk::Lzma { class: 3, props: Some(p), prog: prog1 }]);
    v.push((s, o));
    let mut prog2 = vec![Sym::Lit { b: 1 }, Sym::Lit { b: 2 }, Sym::Lit { b: 3 }];
    prog2.push(Sym::Match { d: 3, n: 273 });
    prog2.push(Sym::Rep { r: 0, n: 24 });
    prog2.push(Sym::Short);
    let (s, o, _) = lzma2_stream(&[
        Chunk::Lzma { class: 3, props: Some(Props { lc: 0, lp: 2, pb: 1 }), prog: prog2 },
        Chunk::Raw { reset: false, data: vec![9, 9] },
    ]);
    v.push((s, o));
    // 9: unpadded size needs a 3-byte varint (>= 16384)
    let big: Vec<u8> = (0..20000usize).map(|i| (i * 7 % 256) as u8).collect();
    let (s, o, _) = lzma2_stream(&[raw(&big)]);
    v.push((s, o));
    v
}

#[derive(Clone, Debug, Serialize, Deserialize)]
pub struct Shape {
    pub pid: usize,
    pub hsize: usize,
    #[serde(rename = "hasP")]
    pub has_p: bool,
    #[serde(rename = "hasU")]
    pub has_u: bool,
}

#[derive(Clone, Debug, Serialize, Deserialize)]
pub struct Mut {
    pub f: String,
    pub b: usize,
    pub v: i64,
}

#[derive(Clone, Debug, Serialize, Deserialize)]
pub struct XzCase {
    pub check: u8,
    pub shapes: Vec<Shape>,
    #[serde(rename = "mut")]
    pub mutation: Mut,
    pub accept: bool,
    #[serde(default)]
    pub sunk: u64,
    #[serde(default)]
    pub out: u64,
    /// optional extra mutation applied by the harness only (values TLC cannot hold)
    #[serde(default)]
    pub extra: Option<String>,
    #[serde(default)]
    pub origin: String,
}

/// Build the concrete file for an abstract case. Returns None when the mutation cannot be
/// expressed (tool error).
pub fn build_file(c: &XzCase, orig_check: u8) -> Option<XzFile> {
    let lib = payload_lib();
    let mut f = XzFile { check: orig_check, ..Default::default() };
    for s in &c.shapes {
        let (p, o) = lib.get(s.pid - 1)?.clone();
        let dict_prop = [22u8, 0, 40, 18][(s.pid + s.hsize / 4 + c.check as usize) % 4];
        f.blocks.push(XzBlock {
            payload: p,
            content: o,
            hsize: s.hsize,
            has_packed: s.has_p,
            has_unpacked: s.has_u,
            filter_props: Some(vec![dict_prop]),
            ..Default::default()
        });
    }
    let m = &c.mutation;
    let bi = m.b.wrapping_sub(1);
    match m.f.as_str() {
        "none" => {}
        "hmagic" => f.hmagic_xor = 0x01,
        "hnull" => f.hflags0 = m.v as u8,
        "hcrc" => f.hcrc_xor = 0x100,
        "hcheck" => {
            // header announces another check than the one the file was built with
            // (block check fields keep the original length; footer keeps the original id)
            return Some(build_hcheck(f, m.v as u8));
        }
        "fcheck" => f.fcheck = Some(m.v as u8),
        "idxPad" => f.idx_pad_pat = m.v as u8,
        "hres" => f.hflags1_or = (m.v as u8) << 4,
        "fres" => f.fflags1_or = (m.v as u8) << 4,
        "bothres" => {
            f.hflags1_or = (m.v as u8) << 4;
            f.fflags1_or = (m.v as u8) << 4;
        }
        "idxCrc" => f.idx_crc_xor = 1,
        "fcrc" => f.fcrc_xor = 0x8000_0000,
        "fnull" => f.fflags0 = m.v as u8,
        "fmagic" => f.fmagic_xor = 0x20,
        "idxN" => f.idx_count = Some(m.v as u64),
        "idxFewer" => f.idx_keep = Some(m.v as usize),
        "idxPerm" => f.idx_perm = m.v as u8,
        "backward" => f.backward = Some(m.v as u32),
        "trailing" => f.trailing = vec![0u8; m.v as usize],
        "reserved" => f.blocks[bi].flags_or = m.v as u8,
        "hpad" => f.blocks[bi].hpad_pat = m.v as u8,
        "bhcrc" => f.blocks[bi].hcrc_xor = 1,
        "bpad" => f.blocks[bi].bpad_pat = m.v as u8,
        "check" => f.blocks[bi].check_xor = 1,
        "fid" => {
            f.blocks[bi].filter_id = Some(match m.v {
                1000001 => (1u64 << 32) + 0x21,
                1000002 => (1u64 << 40) + 0x21,
                1000003 => (1u64 << 62) + 0x21,
                v => v as u64,
            })
        }
        "pdeclBig" => f.blocks[bi].packed_decl = Some(f.blocks[bi].payload.len() as u64 + (1u64 << 32)),
        "udeclBig" => f.blocks[bi].unpacked_decl = Some(f.blocks[bi].content.len() as u64 + (1u64 << 32)),
        "idxUnpaddedBig" => f.idx_rec_add = Some((bi, 0, 1u64 << 32)),
        "idxUnpackedBig" => f.idx_rec_add = Some((bi, 1, 1u64 << 32)),
        // a legal chain of the format that lzma-rs does not support: delta filter, then LZMA2
        "nfilters" => f.blocks[bi].extra_filters = vec![(0x03, vec![0])],
        "propsLen" => f.blocks[bi].filter_props = Some(vec![22; m.v as usize]),
        // (the valid files already rotate the one-byte LZMA2 dictionary property)
        "pdecl" => f.blocks[bi].packed_decl = Some(m.v as u64),
        "udecl" => f.blocks[bi].unpacked_decl = Some(m.v as u64),
        "idxUnpadded" => f.idx_rec = Some((bi, 0, m.v as u64)),
        "idxUnpacked" => f.idx_rec = Some((bi, 1, m.v as u64)),
        _ => return None,
    }
    Some(f)
}

fn build_hcheck(f: XzFile, newc: u8) -> XzFile {
    // handled at byte level by the caller: keep the structure, patch header flags + CRC
    let mut g = f;
    g.fcheck = Some(g.check);
    g.hcheck_override = Some(newc);
    g
}

pub fn check_case(c: &XzCase, prop: &str, rep: &mut Report) -> bool {
    let lib = payload_lib();
    // the abstract file was generated with `check`; for "hcheck" the original id is what the
    // blocks and the footer were built with. TLC exports file.check AFTER mutation.
    let orig_check = if c.mutation.f == "hcheck" { c.orig_check_for_hcheck() } else { c.check };
    let f = match build_file(c, orig_check) {
        Some(f) => f,
        None => {
            rep.tool_error(format!("cannot express mutation {:?}", c.mutation));
            return false;
        }
    };
    // library consistency with the model
    let exp_out: u64 = c.shapes.iter().map(|s| lib[s.pid - 1].1.len() as u64).sum();
    if c.out != exp_out {
        rep.tool_error(format!("payload library of the harness disagrees with LibDef in MC_Xz.tla: {} vs {}", exp_out, c.out));
        return false;
    }
    let mut lay = f.serialize();
    if let Some(x) = &c.extra {
        if x == "backward-allones" {
            // not representable in TLC's integers: backward size 0xFFFF_FFFF, CRC repaired
            let mut g = f.clone();
            g.backward = Some(0xFFFF_FFFF);
            lay = g.serialize();
        } else if let Some(bit) = x.strip_prefix("backward-alias") {
            // the true value with one high bit set (what "(backward << 2) + 4" in 32 bits maps back to the true size)
            let bit: u32 = bit.parse().unwrap_or(30);
            let mut g = f.clone();
            g.backward = Some((lay.index_size / 4 - 1) as u32 | (1 << bit));
            lay = g.serialize();
        }
    }
    if c.mutation.f != "none" && c.extra.is_none() {
        let mut c0 = c.clone();
        c0.mutation = Mut { f: "none".into(), b: 0, v: 0 };
        if let Some(f0) = build_file(&c0, orig_check) {
            if f0.serialize().bytes == lay.bytes {
                // e.g. "padding byte non-zero" where there is no padding: not expressible
                rep.count("mutation_not_expressible");
                return true;
            }
        }
    }
    // history: a decode that fails late inside a block (bad block check / input ending inside the block) happens
    // on this thread right before; nothing it leaves behind may change the verdict on the next file
    if c.accept {
        let bi = lay.fields.iter().find(|(n, s, e)| n.ends_with(".check") && e > s).or_else(|| lay.fields.iter().find(|(n, _, _)| n.ends_with(".payload")));
        if let Some((name, s0, e0)) = bi {
            let mut bad = lay.bytes.clone();
            if name.ends_with(".check") {
                bad[*s0] ^= 0x40;
            } else {
                bad.truncate(*e0);
            }
            let _ = api::xz_bytes(&bad);
            rep.count("preceded_by_failed_decode");
        }
    }
    let o = api::xz_bytes(&lay.bytes);
    let content = f.content();
    let mut vs = vec![];
    if !c.accept && o.verdict == Verdict::Err && lay.bytes.len() < 4000 {
        // C06 / C18 hold for whatever BufRead the caller has: the rejection must not depend on how the source
        // exposes the bytes (1-byte fragments, odd fragments, and every two-fragment split near the end of the
        // file, where the footer fields and anything that follows them sit)
        let n = lay.bytes.len();
        let mut fragsets: Vec<Vec<usize>> = vec![vec![1], vec![3, 1, 2], vec![7]];
        let tail = 16 + f.trailing.len();
        for k in n.saturating_sub(tail)..n {
            if k > 0 {
                fragsets.push(vec![k, n]);
            }
        }
        // header padding of the mutated block ends where its CRC starts: splits inside it
        if let Some((_, s0, _)) = lay.fields.iter().find(|(nm, _, _)| c.mutation.b >= 1 && *nm == format!("b{}.hcrc", c.mutation.b - 1)) {
            for k in s0.saturating_sub(6)..=*s0 {
                fragsets.push(vec![k.max(1), 2, n]);
            }
        }
        // a source that is interrupted once (ErrorKind::Interrupted) right where the first stream ends: whether the
        // decoder retries or gives the error back, what follows the stream is still there
        if !f.trailing.is_empty() {
            for frags in [vec![], vec![1usize]] {
                let mut src = crate::d_reader::LogSrc::new(&lay.bytes, frags.clone(), false);
                src.interrupt_at = Some(n - f.trailing.len());
                let mut out = vec![];
                let r = crate::io::catch(|| lzma_rs::xz_decompress(&mut src, &mut out).is_ok());
                if matches!(r, crate::io::Caught::Done(true)) {
                    vs.push(format!("accepted when the source is interrupted once at the end of the first stream (fragments {:?}) although {} bytes follow it", frags, f.trailing.len()));
                    break;
                }
            }
        }
        for frags in fragsets {
            let mut src = crate::d_reader::LogSrc::new(&lay.bytes, frags.clone(), false);
            let mut out = vec![];
            let r = crate::io::catch(|| lzma_rs::xz_decompress(&mut src, &mut out).is_ok());
            if matches!(r, crate::io::Caught::Done(true)) {
                vs.push(format!("accepted when the source exposes fragments {:?} although the specification rejects it and the whole-buffer decode does (mutated field: {} block {} value {})", frags, c.mutation.f, c.mutation.b, c.mutation.v));
                break;
            }
        }
    }
    if c.accept && o.verdict == Verdict::Ok && lay.bytes.len() < 4000 {
        // C03 says "decompression succeeds" - through whatever BufRead the caller has
        for frags in [vec![1usize], vec![5, 2]] {
            let mut src = crate::d_reader::LogSrc::new(&lay.bytes, frags.clone(), false);
            let mut out = vec![];
            let r = crate::io::catch(|| lzma_rs::xz_decompress(&mut src, &mut out));
            if !matches!(r, crate::io::Caught::Done(Ok(()))) || out != content {
                vs.push(format!("rejected or mis-decoded when the source exposes fragments {:?}", frags));
                break;
            }
        }
    }
    if c.accept && o.verdict == Verdict::Ok && lay.bytes.len() % 4 == 0 {
        let mut sink = crate::io::FaultSink { short: [1usize, 3, 64][lay.bytes.len() / 4 % 3], ..Default::default() };
        let mut rd = &lay.bytes[..];
        let r = crate::io::catch(|| lzma_rs::xz_decompress(&mut rd, &mut sink).is_ok());
        if !matches!(r, crate::io::Caught::Done(true)) || sink.data != content {
            vs.push(format!("with a sink that accepts only part of each write the delivered bytes are not the blocks' contents ({} of {} bytes)", sink.data.len(), content.len()));
        }
    }
    match o.verdict {
        Verdict::Panic => {
            // C03 promises success for a well-formed file, C18 an error value for an unsupported one: a panic breaks
            // them.  C06 says "reports success only if ...": a panic is not a success, so under C06 it is C07's business
            let d = format!("panic: {}", o.msg);
            if prop == "C06" {
                rep.drift(format!("(C07 clause seen while checking C06) {}", d), json!({"mut": c.mutation}));
            } else {
                vs.push(d);
            }
        }
        Verdict::Ok => {
            if !c.accept {
                vs.push(format!("accepted although the specification rejects it (mutated field: {} block {} value {})", c.mutation.f, c.mutation.b, c.mutation.v));
            } else if o.out != content {
                vs.push(format!("accepted but output differs from the concatenation of the blocks' contents ({} vs {} bytes)", o.out.len(), content.len()));
            }
        }
        Verdict::Err => {
            if c.accept {
                vs.push(format!("rejected a well-formed supported file: {}", o.msg));
            } else if !is_prefix(&o.out, &content) {
                // not fixed by C03/C06/C18 (they speak about success): shape tier
                rep.drift("bytes written before the rejection are not a prefix of the blocks' contents".into(), json!({"mut": c.mutation}));
            }
        }
    }
    if vs.is_empty() && o.verdict == Verdict::Err && o.out.len() as u64 != c.sunk && c.mutation.f != "hcheck" {
        rep.drift(format!("sink holds {} bytes after rejection, the model predicts {} ({})", o.out.len(), c.sunk, c.mutation.f), json!({"mut": c.mutation}));
    }
    rep.eval(hash_of(&hex(&lay.bytes)), true);
    rep.count(&format!("mut:{}", c.mutation.f));
    if !vs.is_empty() {
        let mut cj = serde_json::to_value(c).unwrap();
        cj["kind"] = json!("xz");
        cj["file_hex"] = json!(hex(&lay.bytes));
        cj["observed"] = json!({"verdict": format!("{:?}", o.verdict), "out_len": o.out.len(), "msg": o.msg});
        rep.violation(prop, vs.join("; "), cj);
        return false;
    }
    true
}

impl XzCase {
    fn orig_check_for_hcheck(&self) -> u8 {
        // MC_Xz exports "orig" inside mut.v? no: v is the NEW id; the original is carried in origin
        self.origin.parse().unwrap_or(1)
    }
}

fn prop_wants(prop: &str, c: &XzCase) -> bool {
    let unsupported_feature = matches!(c.mutation.f.as_str(), "reserved" | "fid" | "nfilters" | "hnull" | "fnull" | "hres" | "fres" | "bothres") || !matches!(c.check, 0 | 1 | 4);
    match prop {
        "C03" => c.mutation.f == "none" && matches!(c.check, 0 | 1 | 4),
        // (the size of the LZMA2 filter's properties field - mutation propsLen - is listed by neither C06 nor C18)
        "C18" => unsupported_feature || (c.mutation.f == "trailing"),
        // C06 = the integrity fields it lists; stream padding / trailing bytes, reserved block flags, foreign filters,
        // filter chains and a reserved nibble set EQUALLY in header and footer are C18's ("equal stream flags" makes
        // hres / fres / hnull / fnull alone C06's as well)
        "C06" => !matches!(c.mutation.f.as_str(), "none" | "propsLen" | "trailing" | "reserved" | "fid" | "nfilters" | "bothres") && matches!(c.check, 0 | 1 | 4),
        _ => true,
    }
}

pub fn replay_export(path: &str, prop: &str, seed: u64, limit: usize, rep: &mut Report) {
    let lines = tlc_json_lines(path, "XZ");
    rep.add("tlc_files_in_export", lines.len() as u64);
    let mut picked = vec![];
    for l in &lines {
        match serde_json::from_str::<Value>(l) {
            Ok(v) => {
                let mut c: XzCase = match serde_json::from_value(v.clone()) {
                    Ok(c) => c,
                    Err(e) => {
                        rep.tool_error(format!("bad XZ line: {}", e));
                        continue;
                    }
                };
                c.origin = v["orig"].as_u64().unwrap_or(c.check as u64).to_string();
                if prop_wants(prop, &c) {
                    picked.push(c);
                }
            }
            Err(e) => rep.tool_error(format!("bad XZ json: {}", e)),
        }
    }
    rep.add("tlc_files_selected", picked.len() as u64);
    let mut rng = StdRng::seed_from_u64(seed ^ 0x787a);
    // all files with at most one block are always replayed; two-block files are sampled
    let (small, big): (Vec<XzCase>, Vec<XzCase>) = picked.into_iter().partition(|c| c.shapes.len() <= 1);
    let room = limit.saturating_sub(small.len()).max(limit / 4);
    let stride = if big.len() > room { big.len() as f64 / room as f64 } else { 1.0 };
    let mut order: Vec<&XzCase> = small.iter().collect();
    let mut idx: f64 = if stride > 1.0 { rng.gen::<f64>() * stride } else { 0.0 };
    while (idx as usize) < big.len() {
        order.push(&big[idx as usize]);
        idx += stride;
    }
    rep.add("tlc_files_replayed_small_all", small.len() as u64);
    let mut n = 0;
    for c in order {
        n += 1;
        let ok = check_case(c, prop, rep);
        if ok && rep.samples.len() < 4 && n % 53 == 1 {
            rep.sample(json!({"origin": "tlc:MC_Xz", "check": c.check, "shapes": c.shapes, "mut": c.mutation, "accept": c.accept}));
        }
        // values TLC's integers cannot hold
        if prop == "C06" && c.mutation.f == "backward" && n % 7 == 0 {
            let mut c2 = c.clone();
            c2.extra = Some(["backward-allones", "backward-alias30", "backward-alias31"][n / 7 % 3].into());
            c2.accept = false;
            check_case(&c2, prop, rep);
        }
    }
}

/// C06, input-level: every single-bit flip and every truncation of small files with CRC32/CRC64.
/// Contract: Err, or Ok with output identical to the original.
/// C03 extras that the bounded model cannot hold: 130 blocks (2-byte record count in the index),
/// a 2 MiB block (4-byte varints), every check type.
pub fn big_valid(prop: &str, rep: &mut Report) {
    let lib = payload_lib();
    for check in [0u8, 1, 4] {
        let mut f = XzFile { check, ..Default::default() };
        for i in 0..130usize {
            let (p, o) = lib[[0usize, 2, 4, 6][i % 4]].clone();
            f.blocks.push(XzBlock { payload: p, content: o, has_packed: i % 2 == 0, has_unpacked: i % 3 == 0, hsize: if i % 5 == 0 { 64 } else { 0 }, ..Default::default() });
        }
        // one block of 2 MiB + 1 bytes (unpacked size needs 4 varint bytes), built from max-size raw chunks
        let data: Vec<u8> = (0..(1usize << 21) + 1).map(|i| (i % 251) as u8).collect();
        let chunks: Vec<Chunk> = data.chunks(65536).enumerate().map(|(i, c)| Chunk::Raw { reset: i == 0, data: c.to_vec() }).collect();
        let (s, o, _) = lzma2_stream(&chunks);
        f.blocks.push(XzBlock { payload: s, content: o, has_packed: true, has_unpacked: true, ..Default::default() });
        let lay = f.serialize();
        let content = f.content();
        let o = api::xz_bytes(&lay.bytes);
        rep.eval(hash_of(&("big_valid", check)), true);
        if o.verdict != Verdict::Ok || o.out != content {
            rep.violation(prop, format!("131-block file with a 2 MiB block (check {}) rejected or mis-decoded: {:?} {}", check, o.verdict, o.msg), json!({"kind": "xzbig", "check": check}));
        } else if check == 1 {
            rep.sample(json!({"origin": "big_valid", "blocks": 131, "bytes": lay.bytes.len(), "check": check}));
        }
    }
}

/// C03: every multi-byte integer field driven to the values where its encoding changes width
/// (127/128/129, 16383/16384/16385, 2^21 - 1 / 2^21 / 2^21 + 1): uncompressed size, compressed size,
/// unpadded size, number of records - each file also decoded through fragmenting readers.
pub fn varint_boundaries(prop: &str, rep: &mut Report) {
    use crate::d_reader::LogSrc;
    let raw_stream = |l: usize| -> (Vec<u8>, Vec<u8>) {
        let data: Vec<u8> = (0..l).map(|i| (i * 13 % 251) as u8).collect();
        if l == 0 {
            return (vec![0], vec![]);
        }
        let chunks: Vec<Chunk> = data.chunks(65536).enumerate().map(|(i, c)| Chunk::Raw { reset: i == 0, data: c.to_vec() }).collect();
        let (s, o, _) = lzma2_stream(&chunks);
        (s, o)
    };
    let mut files: Vec<(String, XzFile)> = vec![];
    for l in [126usize, 127, 128, 129, 16383, 16384, 16385, (1 << 21) - 1, 1 << 21, (1 << 21) + 1] {
        for check in [0u8, 1, 4] {
            if l > 100000 && check != 1 {
                continue;
            }
            let (s, o) = raw_stream(l);
            let mut f = XzFile { check, ..Default::default() };
            f.blocks.push(XzBlock { payload: s, content: o, has_packed: true, has_unpacked: true, ..Default::default() });
            files.push((format!("content={} check={}", l, check), f));
        }
    }
    // compressed size / unpadded size exactly at a boundary: payload = content + 3 + 1 for one raw chunk
    for target_payload in [127usize, 128, 129, 16383, 16384, 16385] {
        let (s, o) = raw_stream(target_payload - 4);
        let mut f = XzFile { check: 1, ..Default::default() };
        f.blocks.push(XzBlock { payload: s, content: o, has_packed: true, has_unpacked: false, ..Default::default() });
        files.push((format!("packed={}", target_payload), f));
    }
    for target_unpadded in [127usize, 128, 129, 16384] {
        // unpadded = header(12) + payload + check(4)
        let (s, o) = raw_stream(target_unpadded - 12 - 4 - 4);
        let mut f = XzFile { check: 1, ..Default::default() };
        f.blocks.push(XzBlock { payload: s, content: o, ..Default::default() });
        files.push((format!("unpadded={}", target_unpadded), f));
    }
    for nblocks in [127usize, 128, 129] {
        let mut f = XzFile { check: 4, ..Default::default() };
        for i in 0..nblocks {
            let (s, o) = raw_stream(1 + i % 3);
            f.blocks.push(XzBlock { payload: s, content: o, has_unpacked: i % 2 == 0, ..Default::default() });
        }
        files.push((format!("records={}", nblocks), f));
    }
    for (name, f) in files {
        let lay = f.serialize();
        let content = f.content();
        let o = api::xz_bytes(&lay.bytes);
        rep.eval(hash_of(&name), true);
        let mut bad: Option<String> = None;
        if o.verdict != Verdict::Ok || o.out != content {
            bad = Some(format!("{:?} {}", o.verdict, o.msg));
        } else if lay.bytes.len() < 300000 {
            for frags in [vec![1usize], vec![7, 1, 3], vec![8192]] {
                let mut src = LogSrc::new(&lay.bytes, frags.clone(), false);
                let mut out = vec![];
                let r = crate::io::catch(|| lzma_rs::xz_decompress(&mut src, &mut out));
                let ok = matches!(r, crate::io::Caught::Done(Ok(())));
                if !ok || out != content {
                    bad = Some(format!("through a source exposing fragments {:?}: rejected or mis-decoded", frags));
                    break;
                }
            }
        }
        if let Some(b) = bad {
            rep.violation(prop, format!("well-formed file ({}) rejected or mis-decoded: {}", name, b), json!({"kind": "xzbytes", "file_hex": if lay.bytes.len() < 40000 { hex(&lay.bytes) } else { String::new() }, "expect_hex": if content.len() < 40000 { hex(&content) } else { String::new() }, "name": name}));
        }
    }
    rep.sample(json!({"origin": "varint_boundaries", "values": [126, 127, 128, 129, 16383, 16384, 16385, 2097151, 2097152, 2097153], "fields": ["uncompressed size", "compressed size", "unpadded size", "number of records"]}));
}

pub fn flips(prop: &str, seed: u64, nfiles: usize, rep: &mut Report) {
    let lib = payload_lib();
    let mut rng = StdRng::seed_from_u64(seed ^ 0xf11b);
    for fi in 0..nfiles {
        let check = if fi % 2 == 0 { 1u8 } else { 4 };
        let nb = 1 + fi % 3;
        let mut f = XzFile { check, ..Default::default() };
        for _ in 0..nb {
            let (p, o) = lib[rng.gen_range(0..8)].clone(); // small payloads only: every bit is flipped
            f.blocks.push(XzBlock { payload: p, content: o, hsize: 0, has_packed: rng.gen(), has_unpacked: rng.gen(), ..Default::default() });
        }
        let lay = f.serialize();
        let content = f.content();
        let base = api::xz_bytes(&lay.bytes);
        if base.verdict != Verdict::Ok || base.out != content {
            // the flips of C06 need a file that decodes to start from; that it does is C03's text
            rep.drift(format!("(C03 clause seen while checking {}) well-formed file rejected or mis-decoded: {}", prop, base.msg), json!({"file_len": lay.bytes.len()}));
            continue;
        }
        let mut silent = 0;
        for pos in 0..lay.bytes.len() {
            for bit in 0..8 {
                let mut d = lay.bytes.clone();
                d[pos] ^= 1 << bit;
                let o = api::xz_bytes(&d);
                rep.eval(hash_of(&(fi, pos, bit)), true);
                let bad = match o.verdict {
                    // (a panic is not a success: C06 holds; C07's business)
                    Verdict::Panic if prop == "C06" => {
                        rep.drift(format!("(C07 clause seen while checking C06) panic on a flipped file: {}", o.msg), json!({"pos": pos, "bit": bit}));
                        None
                    }
                    Verdict::Panic => Some(format!("panic: {}", o.msg)),
                    Verdict::Ok if o.out != content => Some("corrupted file accepted with different output".to_string()),
                    Verdict::Ok => {
                        silent += 1;
                        None
                    }
                    Verdict::Err => None,
                };
                if let Some(b) = bad {
                    let field = lay.fields.iter().find(|(_, s, e)| pos >= *s && pos < *e).map(|x| x.0.clone()).unwrap_or_default();
                    rep.violation(prop, format!("{} (bit {} of byte {} in field {})", b, bit, pos, field), json!({"kind": "xzbytes", "file_hex": hex(&d), "expect_hex": hex(&content), "must_fail_or_equal": true}));
                }
            }
        }
        for cut in 0..lay.bytes.len() {
            let o = api::xz_bytes(&lay.bytes[..cut]);
            rep.eval(hash_of(&(fi, cut, 99)), true);
            if o.verdict != Verdict::Err {
                rep.violation(prop, format!("file truncated to {} of {} bytes: {:?}", cut, lay.bytes.len(), o.verdict), json!({"kind": "xzbytes", "file_hex": hex(&lay.bytes[..cut]), "expect_hex": "", "must_fail": true}));
            }
        }
        rep.add("flips_accepted_with_identical_output", silent);
        if rep.samples.len() < 6 {
            rep.sample(json!({"origin": "flips", "check": check, "blocks": nb, "bytes": lay.bytes.len(), "bitflips": lay.bytes.len() * 8, "truncations": lay.bytes.len()}));
        }
    }
}

pub fn replay_value(v: &Value, prop: &str, rep: &mut Report) {
    match v["kind"].as_str().unwrap_or("") {
        "xz" => {
            let c: XzCase = serde_json::from_value(v.clone()).expect("xz case");
            check_case(&c, prop, rep);
        }
        _ => {
            let d = unhex(v["file_hex"].as_str().unwrap());
            let exp = unhex(v["expect_hex"].as_str().unwrap_or(""));
            let o = api::xz_bytes(&d);
            let must_fail = v["must_fail"].as_bool().unwrap_or(false);
            let bad = match o.verdict {
                Verdict::Panic => true,
                Verdict::Ok => must_fail || o.out != exp,
                Verdict::Err => !must_fail && !v["must_fail_or_equal"].as_bool().unwrap_or(false),
            };
            rep.eval(1, true);
            if bad {
                rep.violation(prop, format!("replayed: {:?} {}", o.verdict, o.msg), v.clone());
            }
        }
    }
}

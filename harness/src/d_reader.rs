//! Driver for C13 (results independent of reader fragmentation) and C11 (exact consumption).

use crate::api::{self, Opt, Verdict};
use crate::build::{lzma2_stream, lzma_header, Chunk, XzBlock, XzFile};
use crate::coding::{self, Props, Sym};
use crate::d_lzma::{random_walk, WalkCfg};
use crate::io::{catch, Caught};
use crate::oracle::{expect_lzma, expect_lzma2, Exp};
use crate::report::{hash_of, hex, unhex, Report};
use rand::rngs::StdRng;
use rand::{Rng, SeedableRng};
use serde_json::{json, Value};
use std::io::{self, BufRead, BufReader, Read};

/// Scripted BufRead that logs the protocol.
pub struct LogSrc<'a> {
    data: &'a [u8],
    pub pos: usize,
    cur_end: usize,
    frags: Vec<usize>,
    fi: usize,
    pub log: Vec<Value>,
    pub logging: bool,
    /// the first read / fill_buf call made at this offset fails once with ErrorKind::Interrupted
    pub interrupt_at: Option<usize>,
}

impl<'a> LogSrc<'a> {
    pub fn new(data: &'a [u8], frags: Vec<usize>, logging: bool) -> Self {
        LogSrc { data, pos: 0, cur_end: 0, frags, fi: 0, log: vec![], logging, interrupt_at: None }
    }
    fn interrupted(&mut self) -> bool {
        if self.interrupt_at == Some(self.pos) {
            self.interrupt_at = None;
            return true;
        }
        false
    }
    fn expose(&mut self) {
        if self.cur_end <= self.pos {
            let f = if self.frags.is_empty() { usize::MAX / 2 } else { self.frags[self.fi % self.frags.len()].max(1) };
            self.fi += 1;
            self.cur_end = self.pos.saturating_add(f).min(self.data.len());
        }
    }
}
impl<'a> Read for LogSrc<'a> {
    fn read(&mut self, buf: &mut [u8]) -> io::Result<usize> {
        if buf.is_empty() {
            return Ok(0);
        }
        if self.interrupted() {
            return Err(io::Error::new(io::ErrorKind::Interrupted, "scripted interruption"));
        }
        self.expose();
        let n = (self.cur_end - self.pos).min(buf.len());
        buf[..n].copy_from_slice(&self.data[self.pos..self.pos + n]);
        self.pos += n;
        if self.logging {
            self.log.push(json!({"ev": "read", "req": buf.len(), "got": n}));
        }
        Ok(n)
    }
}
impl<'a> BufRead for LogSrc<'a> {
    fn fill_buf(&mut self) -> io::Result<&[u8]> {
        if self.interrupted() {
            return Err(io::Error::new(io::ErrorKind::Interrupted, "scripted interruption"));
        }
        self.expose();
        if self.logging {
            self.log.push(json!({"ev": "fill", "n": self.cur_end - self.pos}));
        }
        Ok(&self.data[self.pos..self.cur_end])
    }
    fn consume(&mut self, amt: usize) {
        if self.logging {
            self.log.push(json!({"ev": "consume", "k": amt}));
        }
        self.pos += amt; // deliberately unchecked: the trace specification checks the protocol
        if self.pos > self.data.len() {
            self.pos = self.data.len();
        }
    }
}

#[derive(Clone, Copy, Debug, PartialEq)]
pub enum Fmt {
    Lzma(Opt),
    /// the same file through the raw building blocks: LzmaParams::read_header + LzmaDecoder::new + decompress
    LzmaRaw(Opt),
    Lzma2,
    Xz,
}

pub struct R3 {
    pub verdict: Verdict,
    pub out: Vec<u8>,
    pub consumed: usize,
    pub msg: String,
}

fn decode_with<R: BufRead>(fmt: Fmt, rd: &mut R) -> (Verdict, Vec<u8>, String) {
    let mut out = vec![];
    let c = catch(|| -> Result<(), String> {
        match fmt {
            Fmt::Lzma(o) => lzma_rs::lzma_decompress_with_options(rd, &mut out, &api::options(o, None, false)).map_err(|e| format!("{:?}", e)),
            Fmt::LzmaRaw(o) => {
                use lzma_rs::decompress::raw::{LzmaDecoder, LzmaParams};
                (|| -> Result<(), lzma_rs::error::Error> {
                    let params = LzmaParams::read_header(rd, &api::options(o, None, false))?;
                    let mut d = LzmaDecoder::new(params, None)?;
                    d.decompress(rd, &mut out)
                })()
                .map_err(|e| format!("{:?}", e))
            }
            Fmt::Lzma2 => lzma_rs::lzma2_decompress(rd, &mut out).map_err(|e| format!("{:?}", e)),
            Fmt::Xz => lzma_rs::xz_decompress(rd, &mut out).map_err(|e| format!("{:?}", e)),
        }
    });
    match c {
        Caught::Done(Ok(())) => (Verdict::Ok, out, String::new()),
        Caught::Done(Err(m)) => (Verdict::Err, out, m),
        Caught::Panic(m) => (Verdict::Panic, out, m),
    }
}

/// kind: ("slice"), ("script", frags), ("bufreader", cap)
pub fn run_kind(fmt: Fmt, data: &[u8], kind: &str, param: &[usize], log: Option<&mut Vec<String>>) -> R3 {
    match kind {
        "slice" => {
            let mut rd = data;
            let (v, o, m) = decode_with(fmt, &mut rd);
            R3 { verdict: v, out: o, consumed: data.len() - rd.len(), msg: m }
        }
        "script" => {
            let mut src = LogSrc::new(data, param.to_vec(), log.is_some());
            let (v, o, m) = decode_with(fmt, &mut src);
            let consumed = src.pos;
            if let Some(l) = log {
                if src.log.len() <= 3000 {
                    l.push(json!({"ev": "S", "total": data.len()}).to_string());
                    for e in &src.log {
                        l.push(e.to_string());
                    }
                    l.push(json!({"ev": "end", "consumed": consumed}).to_string());
                }
            }
            R3 { verdict: v, out: o, consumed, msg: m }
        }
        "bufreader" => {
            let mut src = LogSrc::new(data, vec![], false);
            let mut br = BufReader::with_capacity(param[0].max(1), &mut src);
            let (v, o, m) = decode_with(fmt, &mut br);
            let buffered = br.buffer().len();
            drop(br);
            R3 { verdict: v, out: o, consumed: src.pos - buffered, msg: m }
        }
        "cursor" => {
            let mut c = io::Cursor::new(data);
            let (v, o, m) = decode_with(fmt, &mut c);
            R3 { verdict: v, out: o, consumed: c.position() as usize, msg: m }
        }
        k => panic!("kind {}", k),
    }
}

pub struct Input {
    pub fmt: Fmt,
    pub data: Vec<u8>,
    pub name: String,
    /// for C11: length of the payload proper (data may carry trailing bytes after it)
    pub payload_len: Option<usize>,
}

pub fn gen_inputs(rng: &mut StdRng, n: usize, with_trailing: bool) -> Vec<Input> {
    let mut v = vec![];
    for i in 0..n {
        let p = Props { lc: [3, 0, 4][i % 3], lp: [0, 2, 0][i % 3], pb: [2, 0, 4][i % 3] };
        let ns = [1usize, 5, 40, 300, 0][i % 5];
        let prog = if ns == 0 { vec![] } else { random_walk(rng, &WalkCfg { nsyms: ns, props: p, max_dist: 4096, lit_alphabet: 6 }) };
        let enc = coding::encode_program(&prog, p);
        let len = enc.out.len() as u64;
        let trailing: Vec<u8> = if with_trailing {
            // arbitrary bytes, and runs of null bytes (which the .xz format would call "stream padding")
            match i % 7 {
                4 => vec![0; 4],
                5 => vec![0; 12],
                6 => vec![0; 8],
                _ => (0..[0usize, 1, 5, 64][i % 4]).map(|_| rng.gen()).collect(),
            }
        } else {
            vec![]
        };
        // LZMA, size in header (no marker): consumption is fixed by the property
        let mut d = lzma_header(p, 4096, Some(len));
        d.extend_from_slice(&enc.payload);
        let pl = d.len();
        d.extend_from_slice(&trailing);
        v.push(Input { fmt: Fmt::LzmaRaw(Opt::ReadFromHeader), data: d.clone(), name: format!("lzma-sized-rawapi/{}syms+{}", ns, trailing.len()), payload_len: Some(pl) });
        v.push(Input { fmt: Fmt::Lzma(Opt::ReadFromHeader), data: d, name: format!("lzma-sized/{}syms+{}", ns, trailing.len()), payload_len: Some(pl) });
        // LZMA, 5-byte header, size supplied
        let mut d = lzma_header(p, 4096, None);
        d.extend_from_slice(&enc.payload);
        let pl = d.len();
        d.extend_from_slice(&trailing);
        v.push(Input { fmt: Fmt::LzmaRaw(Opt::UseProvided { n: Some(len) }), data: d.clone(), name: format!("lzma-provided-rawapi/{}syms+{}", ns, trailing.len()), payload_len: Some(pl) });
        v.push(Input { fmt: Fmt::Lzma(Opt::UseProvided { n: Some(len) }), data: d, name: format!("lzma-provided/{}syms+{}", ns, trailing.len()), payload_len: Some(pl) });
        // LZMA, 13-byte header whose size field is read and ignored, size supplied
        let mut d = lzma_header(p, 4096, Some(if i % 2 == 0 { u64::MAX } else { len + 3 }));
        d.extend_from_slice(&enc.payload);
        let pl = d.len();
        d.extend_from_slice(&trailing);
        v.push(Input { fmt: Fmt::LzmaRaw(Opt::ReadHeaderButUseProvided { n: Some(len) }), data: d.clone(), name: format!("lzma-header-ignored-rawapi/{}syms+{}", ns, trailing.len()), payload_len: Some(pl) });
        v.push(Input { fmt: Fmt::Lzma(Opt::ReadHeaderButUseProvided { n: Some(len) }), data: d, name: format!("lzma-header-ignored/{}syms+{}", ns, trailing.len()), payload_len: Some(pl) });
        // LZMA with marker: trailing bytes must be rejected
        let mut pm = prog.clone();
        pm.push(Sym::Eos);
        let encm = coding::encode_program(&pm, p);
        let mut d = lzma_header(p, 4096, Some(u64::MAX));
        d.extend_from_slice(&encm.payload);
        d.extend_from_slice(&trailing);
        v.push(Input { fmt: Fmt::LzmaRaw(Opt::ReadFromHeader), data: d.clone(), name: format!("lzma-marker-rawapi/{}syms+{}", ns, trailing.len()), payload_len: None });
        v.push(Input { fmt: Fmt::Lzma(Opt::ReadFromHeader), data: d, name: format!("lzma-marker/{}syms+{}", ns, trailing.len()), payload_len: None });
        // LZMA2
        let lp = Props { lc: p.lc.min(4), lp: p.lp.min(4 - p.lc.min(4)), pb: p.pb };
        let prog2 = random_walk(rng, &WalkCfg { nsyms: ns.max(1), props: lp, max_dist: 4096, lit_alphabet: 6 });
        let chunks = vec![
            Chunk::Raw { reset: true, data: (0..(1 + i % 40)).map(|x| x as u8).collect() },
            Chunk::Lzma { class: 3, props: Some(lp), prog: prog2 },
            Chunk::Raw { reset: false, data: vec![0, 0, 7] },
        ];
        let (s, o, _) = lzma2_stream(&chunks);
        let mut d = s.clone();
        let pl = d.len();
        d.extend_from_slice(&trailing);
        v.push(Input { fmt: Fmt::Lzma2, data: d, name: format!("lzma2/{}syms+{}", ns, trailing.len()), payload_len: Some(pl) });
        // an uncompressed chunk (length not a multiple of 4) BETWEEN two LZMA chunks, the second one
        // continuing state and probabilities (class 0): positions after the raw chunk feed the contexts
        {
            let lp2 = Props { lc: 0, lp: 2, pb: 2 };
            let pa = random_walk(rng, &WalkCfg { nsyms: 80, props: lp2, max_dist: 4096, lit_alphabet: 6 });
            let chunks2 = vec![
                Chunk::Lzma { class: 3, props: Some(lp2), prog: pa },
                Chunk::Raw { reset: false, data: (0..(5 + i % 3)).map(|x| x as u8 + 1).collect() },
                Chunk::Lzma { class: 0, props: None, prog: (0..60).map(|k| if k % 5 == 4 { Sym::Rep { r: 0, n: 3 } } else { Sym::Lit { b: (k % 4) as u8 * 60 } }).collect() },
            ];
            let (s2, _, _) = lzma2_stream(&chunks2);
            let mut d = s2;
            let pl = d.len();
            d.extend_from_slice(&trailing);
            v.push(Input { fmt: Fmt::Lzma2, data: d, name: format!("lzma2-raw-between/{}+{}", i, trailing.len()), payload_len: Some(pl) });
        }
        if !with_trailing && i % 3 == 0 {
            // LZMA2 chunk whose properties byte is below 225 but has lc + lp > 4, with a payload that is well-formed
            // under those properties: whatever the verdict, it must not depend on where the reader's fragments end
            let bp = Props { lc: [4u32, 3, 8][i / 3 % 3], lp: [1u32, 2, 4][i / 3 % 3], pb: 2 };
            let enc = coding::encode_program(&[Sym::Lit { b: 1 }, Sym::Lit { b: 2 }, Sym::Match { d: 2, n: 6 }], bp);
            let mut d = crate::build::lzma2_chunk_header(3, enc.out.len(), enc.payload.len(), Some(bp));
            d.extend_from_slice(&enc.payload);
            d.push(0);
            v.push(Input { fmt: Fmt::Lzma2, data: d, name: format!("lzma2-props-lc{}lp{}+0", bp.lc, bp.lp), payload_len: None });
        }
        // XZ
        let mut f = XzFile { check: [1u8, 4, 0][i % 3], ..Default::default() };
        f.blocks.push(XzBlock { payload: s, content: o, hsize: [0usize, 16, 24][i % 3], has_packed: i % 2 == 0, has_unpacked: i % 3 == 0, ..Default::default() });
        if i % 2 == 1 {
            let (s2, o2, _) = lzma2_stream(&[Chunk::Raw { reset: true, data: vec![1, 2, 3, 4, 5] }]);
            f.blocks.push(XzBlock { payload: s2, content: o2, ..Default::default() });
        }
        let mut d = f.serialize().bytes;
        if with_trailing {
            // "arbitrary trailing bytes": also a complete second stream of the same format (what `cat a.xz b.xz`
            // gives), and lengths that are multiples of 256 / 65536 (a length kept in a narrow integer reads as 0)
            let file = d.clone();
            let mut extra: Vec<Vec<u8>> = vec![file.clone()];
            match i % 4 {
                0 => extra.push(vec![0u8; 65536]),
                1 => extra.push((0..65536u32).map(|x| (x * 7 + 1) as u8 | 1).collect()),
                2 => extra.push(vec![0x33u8; 256]),
                _ => extra.push(vec![0x33u8; 131072]),
            }
            for t in extra {
                let mut dd = file.clone();
                dd.extend_from_slice(&t);
                v.push(Input { fmt: Fmt::Xz, data: dd, name: format!("xz-then-more/{}blocks+{}", f.blocks.len(), t.len()), payload_len: None });
                // the same behind an .lzma stream that ends with the marker
                let mut dm = lzma_header(p, 4096, Some(u64::MAX));
                dm.extend_from_slice(&encm.payload);
                let own = dm.clone();
                dm.extend_from_slice(if t.len() == file.len() { &own } else { &t });
                let tl = dm.len() - own.len();
                v.push(Input { fmt: Fmt::Lzma(Opt::ReadFromHeader), data: dm, name: format!("lzma-marker-then-more/{}syms+{}", ns, tl), payload_len: None });
            }
        }
        d.extend_from_slice(&trailing);
        v.push(Input { fmt: Fmt::Xz, data: d, name: format!("xz/{}blocks+{}", f.blocks.len(), trailing.len()), payload_len: None });
        if !with_trailing {
            // one integer field replaced by a value that agrees with the true one in its low bits only (enclosing
            // CRC32 repaired): invalid files whose verdict must not depend on the reader either - a second code path
            // that narrows the field differently is taken only under some fragmentations
            let lay = f.serialize();
            let true_bw = (lay.index_size / 4 - 1) as u32;
            let mut g = f.clone();
            match i % 6 {
                0 => g.backward = Some(true_bw | 0x4000_0000),
                1 => g.backward = Some(true_bw | 0x8000_0000),
                2 => g.idx_rec_add = Some((0, 0, 1 << 32)),
                3 => g.idx_rec_add = Some((0, 1, 1 << 32)),
                4 => g.idx_count = Some(f.blocks.len() as u64 + (1 << 32)),
                _ => {
                    g.blocks[0].has_unpacked = true;
                    g.blocks[0].unpacked_decl = Some(f.blocks[0].content.len() as u64 + (1 << 32));
                }
            }
            v.push(Input { fmt: Fmt::Xz, data: g.serialize().bytes, name: format!("xz-aliased-field{}/{}blocks+0", i % 6, g.blocks.len()), payload_len: None });
        }
        if !with_trailing {
            // a block whose declared Compressed Size covers bytes BEHIND the end of its LZMA2 stream (index and padding
            // consistent with the declaration): an invalid file - the verdict on it must not depend on whether the
            // whole block happens to be buffered
            let mut g = f.clone();
            g.blocks[0].payload.extend_from_slice(&[[0x5Au8, 1, 2, 3], [0, 0, 0, 0], [0, 0, 0, 1]][i % 3][..1 + i % 4]);
            g.blocks[0].has_packed = true;
            v.push(Input { fmt: Fmt::Xz, data: g.serialize().bytes, name: format!("xz-junk-inside-declared-size/{}blocks+0", g.blocks.len()), payload_len: None });
        }
        if !with_trailing && i % 2 == 0 {
            // index integers in a non-minimal encoding (self-consistent file): whatever the decoder thinks of them,
            // it must think the same under every fragmentation (C13 only; C11 does not fix the verdict)
            let mut g = f.clone();
            g.varint_pad = 1 + i % 3;
            v.push(Input { fmt: Fmt::Xz, data: g.serialize().bytes, name: format!("xz-noncanonical-index/{}blocks+0", g.blocks.len()), payload_len: None });
        }
    }
    v
}

fn mutated(rng: &mut StdRng, inp: &Input) -> Vec<Input> {
    let mut v = vec![];
    if inp.data.len() > 2 {
        let k = rng.gen_range(1..inp.data.len());
        v.push(Input { fmt: inp.fmt, data: inp.data[..k].to_vec(), name: format!("{}|trunc{}", inp.name, k), payload_len: None });
        let mut d = inp.data.clone();
        let k = rng.gen_range(0..d.len());
        d[k] ^= 1 << rng.gen_range(0..8);
        v.push(Input { fmt: inp.fmt, data: d, name: format!("{}|flip{}", inp.name, k), payload_len: None });
        // non-zero / zero padding variations are in the xz driver; here: extra zero bytes at the end
        let mut d = inp.data.clone();
        d.extend_from_slice(&[0, 0, 0, 0]);
        v.push(Input { fmt: inp.fmt, data: d, name: format!("{}|zeros4", inp.name), payload_len: None });
    }
    v
}

pub fn run_c13(prop: &str, seed: u64, n: usize, trace_path: Option<&str>, rep: &mut Report) {
    let mut rng = StdRng::seed_from_u64(seed ^ 0xc13);
    let mut trace: Vec<String> = vec![];
    let base = gen_inputs(&mut rng, n, false);
    let mut all: Vec<Input> = vec![];
    for b in base {
        all.extend(mutated(&mut rng, &b));
        all.push(b);
    }
    for inp in &all {
        let r0 = run_kind(inp.fmt, &inp.data, "slice", &[], None);
        let mut kinds: Vec<(&str, Vec<usize>)> = vec![
            ("cursor", vec![]),
            ("script", vec![1]),
            ("script", vec![2]),
            ("script", vec![1, 3, 2]),
            ("script", vec![rng.gen_range(1..9), rng.gen_range(1..40), 1]),
            ("script", vec![4, 1]),
        ];
        for cap in [1usize, 2, 3, 7, 64, rng.gen_range(1..200)] {
            kinds.push(("bufreader", vec![cap]));
        }
        // "reader buffer capacities 1..n": every capacity for small inputs (a refill boundary at every offset, and
        // the capacities that make a refill end exactly where a field or the file ends)
        if inp.data.len() <= 260 {
            for cap in 1..=inp.data.len() + 1 {
                if ![1usize, 2, 3, 7, 64].contains(&cap) {
                    kinds.push(("bufreader", vec![cap]));
                }
            }
        } else {
            for q in 1..=6usize {
                kinds.push(("bufreader", vec![(inp.data.len() / q).max(1)]));
                kinds.push(("bufreader", vec![((inp.data.len() - 12) / q).max(1)]));
            }
        }
        for (k, param) in kinds {
            let want_log = k == "script" && trace.len() < 80000;
            let r = run_kind(inp.fmt, &inp.data, k, &param, if want_log { Some(&mut trace) } else { None });
            let mut vs = vec![];
            if r.verdict == Verdict::Panic {
                if r0.verdict == Verdict::Panic {
                    // the same panic when all data is exposed at once: nothing depends on the reader (C07's text)
                    rep.drift(format!("(C07 clause seen while checking {}) {}: panic under every reader: {}", prop, inp.name, r.msg), json!({"reader": k}));
                } else {
                    vs.push(format!("panic with reader {}{:?}, {:?} when all data is exposed at once: {}", k, param, r0.verdict, r.msg));
                }
            } else if r0.verdict != Verdict::Panic {
                if (r.verdict == Verdict::Ok) != (r0.verdict == Verdict::Ok) {
                    vs.push(format!("verdict {:?} with reader {}{:?}, {:?} when all data is exposed at once ({} / {})", r.verdict, k, param, r0.verdict, r.msg, r0.msg));
                } else if r.verdict == Verdict::Ok {
                    if r.out != r0.out {
                        vs.push(format!("output differs with reader {}{:?}", k, param));
                    }
                    if r.consumed != r0.consumed {
                        vs.push(format!("consumed {} bytes with reader {}{:?}, {} when all data is exposed at once", r.consumed, k, param, r0.consumed));
                    }
                }
            }
            rep.eval(hash_of(&(hex(&inp.data), k, param.clone(), format!("{:?}", inp.fmt))), true);
            if !vs.is_empty() {
                rep.violation(prop, format!("{}: {}", inp.name, vs.join("; ")), json!({"kind": "reader", "fmt": format!("{:?}", inp.fmt), "data_hex": hex(&inp.data), "reader": k, "param": param}));
            } else if rep.samples.len() < 5 && k == "script" && param.len() == 3 {
                rep.sample(json!({"input": inp.name, "bytes": inp.data.len(), "reader": k, "frags": param, "verdict": format!("{:?}", r.verdict), "consumed": r.consumed}));
            }
        }
    }
    rep.add("trace_events", trace.len() as u64);
    if let Some(p) = trace_path {
        std::fs::write(p, trace.join("\n") + "\n").expect("write trace");
        rep.traces.push(p.to_string());
    }
}

/// C11: exact consumption, nothing after the payload is read or required.
pub fn run_c11(prop: &str, seed: u64, n: usize, rep: &mut Report) {
    let mut rng = StdRng::seed_from_u64(seed ^ 0xc11);
    let inputs = gen_inputs(&mut rng, n, true);
    for inp in &inputs {
        let e = match inp.fmt {
            Fmt::Lzma(o) | Fmt::LzmaRaw(o) => Some(expect_lzma(&inp.data, o, None)),
            Fmt::Lzma2 => Some(expect_lzma2(&inp.data)),
            Fmt::Xz => None,
        };
        let mut kinds: Vec<(&str, Vec<usize>)> = vec![("slice", vec![]), ("cursor", vec![]), ("script", vec![1]), ("script", vec![3, 1, 2]), ("bufreader", vec![1]), ("bufreader", vec![5]), ("bufreader", vec![4096])];
        // "BufReader of any capacity": every capacity for small inputs, and for the others the capacities whose
        // refills end exactly at the end of the payload / of the file (a buffer that happens to end there says
        // nothing about the input ending there)
        let trail: usize = inp.name.rsplit('+').next().and_then(|t| t.parse().ok()).unwrap_or(0);
        let end = inp.payload_len.unwrap_or(inp.data.len() - trail.min(inp.data.len()));
        if inp.data.len() <= 200 {
            for cap in 2..=inp.data.len() + 1 {
                if cap != 5 {
                    kinds.push(("bufreader", vec![cap]));
                }
            }
        } else {
            for q in 1..=8usize {
                if end % q == 0 && end / q > 5 {
                    kinds.push(("bufreader", vec![end / q]));
                }
            }
            kinds.push(("bufreader", vec![inp.data.len()]));
        }
        for (k, param) in kinds {
            let r = run_kind(inp.fmt, &inp.data, k, &param, None);
            let mut vs = vec![];
            if r.verdict == Verdict::Panic {
                // (a panic that the same input WITHOUT what follows the payload / the file shows as well is C07's text)
                let alone = run_kind(inp.fmt, &inp.data[..end.min(inp.data.len())], k, &param, None);
                if alone.verdict == Verdict::Panic {
                    rep.drift(format!("(C07 clause seen while checking {}) {}: panic with and without trailing bytes: {}", prop, inp.name, r.msg), json!({"reader": k}));
                    continue;
                }
                vs.push(format!("panic: {}", r.msg));
            }
            match (inp.payload_len, &e) {
                (Some(pl), Some(e)) => {
                    // embedded payload: must succeed, output exact, reader left right after the payload
                    if e.v != Exp::Ok {
                        rep.tool_error(format!("generator produced a payload the oracle rejects: {} {}", inp.name, e.class));
                        continue;
                    }
                    // C11 is about what FOLLOWS the payload: if the payload alone is not decoded to what the format
                    // defines, that is C01 / C02's text
                    let alone = run_kind(inp.fmt, &inp.data[..pl], k, &param, None);
                    if alone.verdict != Verdict::Panic && (alone.verdict != Verdict::Ok || alone.out != e.out) {
                        rep.drift(format!("(C01/C02 clause seen while checking {}) {}: the payload alone is rejected or mis-decoded", prop, inp.name), json!({"reader": k}));
                        continue;
                    }
                    if r.verdict != Verdict::Ok {
                        vs.push(format!("payload followed by {} unrelated bytes was rejected: {}", inp.data.len() - pl, r.msg));
                    } else {
                        if r.out != e.out {
                            vs.push("output changed by bytes that follow the payload".into());
                        }
                        if r.consumed != pl {
                            vs.push(format!("reader left at offset {}, the payload ends at {} ({} reader {:?})", r.consumed, pl, k, param));
                        }
                    }
                }
                _ => {
                    // whole-file decoders that define an end: trailing bytes are an error
                    let has_trailing = inp.name.rsplit('+').next().map(|t| t != "0").unwrap_or(false);
                    if has_trailing && r.verdict == Verdict::Ok {
                        vs.push("trailing bytes after the end of the stream were accepted".into());
                    }
                    if !has_trailing && r.verdict != Verdict::Ok && r.verdict != Verdict::Panic {
                        // that a valid file decodes is C01 / C03's text, not C11's
                        rep.drift(format!("(C01/C03 clause seen while checking {}) valid file rejected: {}", prop, r.msg), json!({"input": inp.name}));
                    }
                }
            }
            rep.eval(hash_of(&(hex(&inp.data), k, param.clone(), format!("{:?}", inp.fmt))), true);
            if !vs.is_empty() {
                rep.violation(prop, format!("{}: {}", inp.name, vs.join("; ")), json!({"kind": "reader", "fmt": format!("{:?}", inp.fmt), "data_hex": hex(&inp.data), "reader": k, "param": param, "payload_len": inp.payload_len}));
            } else if rep.samples.len() < 5 && k == "bufreader" && param[0] == 5 {
                rep.sample(json!({"input": inp.name, "bytes": inp.data.len(), "payload_len": inp.payload_len, "reader": "BufReader(cap 5)", "consumed": r.consumed, "verdict": format!("{:?}", r.verdict)}));
            }
        }
    }
}

pub fn replay_value(v: &Value, prop: &str, rep: &mut Report) {
    let data = unhex(v["data_hex"].as_str().unwrap());
    let fs = v["fmt"].as_str().unwrap_or("");
    let rawapi = fs.starts_with("LzmaRaw");
    let fmt = if fs.starts_with("Lzma2") { Fmt::Lzma2 } else if fs.starts_with("Xz") { Fmt::Xz } else if fs.contains("UseProvided") && !fs.contains("ReadHeader") {
        // the provided size is recovered from the oracle-free path: decode with the marker-less size = unknown is not possible; use header-less size from the text
        let n: Option<u64> = fs.split("Some(").nth(1).and_then(|t| t.split(')').next()).and_then(|t| t.parse().ok());
        Fmt::Lzma(Opt::UseProvided { n })
    } else if fs.contains("ReadHeaderButUseProvided") {
        let n: Option<u64> = fs.split("Some(").nth(1).and_then(|t| t.split(')').next()).and_then(|t| t.parse().ok());
        Fmt::Lzma(Opt::ReadHeaderButUseProvided { n })
    } else { Fmt::Lzma(Opt::ReadFromHeader) };
    let fmt = match fmt {
        Fmt::Lzma(o) if rawapi => Fmt::LzmaRaw(o),
        f => f,
    };
    let kind = v["reader"].as_str().unwrap_or("slice").to_string();
    let param: Vec<usize> = v["param"].as_array().map(|a| a.iter().map(|x| x.as_u64().unwrap() as usize).collect()).unwrap_or_default();
    let r0 = run_kind(fmt, &data, "slice", &[], None);
    let r = run_kind(fmt, &data, &kind, &param, None);
    rep.eval(1, true);
    let mut bad = (r.verdict == Verdict::Panic && r0.verdict != Verdict::Panic) || (r.verdict != Verdict::Panic && r0.verdict != Verdict::Panic && (r.verdict == Verdict::Ok) != (r0.verdict == Verdict::Ok) || (r.verdict == Verdict::Ok && (r.out != r0.out || r.consumed != r0.consumed)));
    if let Some(pl) = v["payload_len"].as_u64() {
        bad = bad || r.verdict != Verdict::Ok || r.consumed != pl as usize;
    }
    if bad {
        rep.violation(prop, format!("replayed: {:?} consumed {} (all-at-once: {:?} consumed {})", r.verdict, r.consumed, r0.verdict, r0.consumed), v.clone());
    }
}

//! Records symbol-level executions of the real decoder (hooks) for Trace_Lzma.tla.

use crate::api::{self, Opt};
use crate::build::{lzma2_stream, lzma_header, Chunk};
use crate::coding::{self, Props, Sym};
use crate::d_lzma::{random_walk, WalkCfg};
use crate::report::Report;
use rand::rngs::StdRng;
use rand::SeedableRng;
use serde_json::json;

#[cfg(lzma_rs_verif)]
fn record(f: impl FnOnce()) -> Vec<lzma_rs::verif::Event> {
    lzma_rs::verif::start();
    f();
    lzma_rs::verif::take()
}

#[cfg(lzma_rs_verif)]
fn push_events(trace: &mut Vec<String>, dict: u64, evs: &[lzma_rs::verif::Event], cap: usize) -> usize {
    trace.push(json!({"ev": "start", "dict": dict}).to_string());
    let mut n = 0;
    for e in evs {
        if n >= cap {
            break;
        }
        let a = e.args;
        let big = |v: u64| v.min(1 << 30);
        let line = match e.name {
            "lit" => json!({"ev": "lit", "b": a[0], "st": a[1], "outlen": big(a[2])}),
            "short" => json!({"ev": "short", "dist": big(a[0]), "st": a[1], "outlen": big(a[2])}),
            "copy" => json!({"ev": "copy", "kind": a[0], "len": a[1], "dist": big(a[2]), "st": a[3], "outlen": big(a[4])}),
            "eos" => json!({"ev": "eos", "st": a[0], "outlen": big(a[1])}),
            "l2lzma" => json!({"ev": "l2lzma", "class": (a[0] >> 5) & 3, "unpacked": a[1], "acclen": big(a[6])}),
            "l2raw" => json!({"ev": "l2raw", "reset": a[0] != 0, "size": a[1], "acclen": big(a[2])}),
            _ => continue,
        };
        trace.push(line.to_string());
        n += 1;
    }
    n
}

#[cfg(lzma_rs_verif)]
pub fn run(prop: &str, seed: u64, files_dir: &str, cap: usize, trace_path: &str, rep: &mut Report) {
    let mut trace: Vec<String> = vec![];
    let mut total = 0usize;
    // 1. the repository's own files (real liblzma encoder output)
    if let Ok(rd) = std::fs::read_dir(files_dir) {
        let mut names: Vec<_> = rd.filter_map(|e| e.ok()).map(|e| e.path()).collect();
        names.sort();
        for p in names {
            let name = p.file_name().unwrap().to_string_lossy().to_string();
            let data = match std::fs::read(&p) {
                Ok(d) => d,
                Err(_) => continue,
            };
            if name.ends_with(".lzma") {
                let dict = if data.len() >= 5 { (u32::from_le_bytes([data[1], data[2], data[3], data[4]]) as u64).max(4096) } else { 4096 };
                let mut ok = false;
                let evs = record(|| {
                    ok = api::lzma_bytes(&data, &api::options(Opt::ReadFromHeader, None, false)).ok();
                });
                if ok {
                    total += push_events(&mut trace, dict.min(1 << 30), &evs, cap);
                    rep.count("files_traced");
                    rep.eval(crate::report::hash_of(&name), true);
                    if rep.samples.len() < 4 {
                        rep.sample(json!({"file": name, "symbol_events": evs.len()}));
                    }
                }
            } else if name.ends_with(".xz") {
                let mut ok = false;
                let evs = record(|| {
                    ok = api::xz_bytes(&data).ok();
                });
                if ok {
                    total += push_events(&mut trace, 0, &evs, cap);
                    rep.count("files_traced");
                    rep.eval(crate::report::hash_of(&name), true);
                    if rep.samples.len() < 6 {
                        rep.sample(json!({"file": name, "symbol_events": evs.len()}));
                    }
                }
            }
        }
    }
    // 2. spec-generated streams: small dictionaries (raw decoder) and LZMA2 with every reset class
    let mut rng = StdRng::seed_from_u64(seed ^ 0x5e7);
    for i in 0..12usize {
        let p = Props { lc: [3, 0, 8][i % 3], lp: [0, 4, 0][i % 3], pb: [2, 4, 0][i % 3] };
        let md = [2u64, 5, 64, 4096][i % 4];
        let mut prog = random_walk(&mut rng, &WalkCfg { nsyms: 300, props: p, max_dist: md, lit_alphabet: 9 });
        prog.push(Sym::Eos);
        let e = coding::encode_program(&prog, p);
        let evs = record(|| {
            let _ = api::raw_lzma(&e.payload, p.lc, p.lp, p.pb, md as u32, None, None);
        });
        total += push_events(&mut trace, md, &evs, cap);
        rep.eval(crate::report::hash_of(&(seed, i)), true);
        let _ = lzma_header(p, 0, None);
    }
    for i in 0..8usize {
        let lc = i as u32 % 4;
        let p = Props { lc, lp: (4 - lc).min(2), pb: i as u32 % 5 };
        let w = |rng: &mut StdRng, n| random_walk(rng, &WalkCfg { nsyms: n, props: p, max_dist: 4096, lit_alphabet: 9 });
        let chunks = vec![
            Chunk::Raw { reset: true, data: vec![1, 2, 3, 4, 5] },
            Chunk::Lzma { class: 2, props: Some(p), prog: w(&mut rng, 60) },
            Chunk::Lzma { class: 0, props: None, prog: vec![Sym::Rep { r: 1, n: 9 }, Sym::Short, Sym::Lit { b: 4 }] },
            Chunk::Lzma { class: 1, props: None, prog: vec![Sym::Lit { b: 9 }, Sym::Match { d: 40, n: 100 }] },
            Chunk::Raw { reset: false, data: vec![7; 300] },
            Chunk::Lzma { class: 3, props: Some(p), prog: w(&mut rng, 40) },
        ];
        let (s, _, _) = lzma2_stream(&chunks);
        let evs = record(|| {
            let _ = api::lzma2_bytes(&s);
        });
        total += push_events(&mut trace, 0, &evs, cap);
        rep.eval(crate::report::hash_of(&(seed, i, 2)), true);
    }
    rep.add("trace_events", total as u64);
    std::fs::write(trace_path, trace.join("\n") + "\n").expect("write trace");
    rep.traces.push(trace_path.to_string());
    let _ = prop;
}

/// Container events of real .xz decodes for Trace_Xz.tla.
#[cfg(lzma_rs_verif)]
pub fn run_xz(prop: &str, seed: u64, files_dir: &str, trace_path: &str, rep: &mut Report) {
    use crate::build::{XzBlock, XzFile};
    use rand::Rng;
    let mut trace: Vec<String> = vec![];
    let mut add = |data: &[u8], name: &str, rep: &mut Report, trace: &mut Vec<String>| {
        let mut ok = false;
        let evs = record(|| {
            ok = api::xz_bytes(data).ok();
        });
        if !ok {
            return;
        }
        for e in &evs {
            let a = e.args;
            let opt = |v: u64| -> i64 { if v == 0 { -1 } else { (v - 1).min(1 << 30) as i64 } };
            let line = match e.name {
                "xzhdr" => json!({"ev": "xzhdr", "check": a[0]}),
                // the hook logs 4 * (size byte) = header without its CRC32; the real header size is 4 more
                "xzblock" => json!({"ev": "xzblock", "hsize": a[0] + 4, "total": a[1].min(1 << 30), "pad": a[2], "unpacked": a[3].min(1 << 30), "pdecl": opt(a[4]), "udecl": opt(a[5])}),
                "xzindex" => json!({"ev": "xzindex", "n": a[0], "size": a[1]}),
                "xzend" => json!({"ev": "xzend", "size": a[0]}),
                _ => continue,
            };
            trace.push(line.to_string());
        }
        rep.eval(crate::report::hash_of(&name.to_string()), true);
        if rep.samples.len() < 4 {
            rep.sample(json!({"file": name, "container_events": evs.iter().filter(|e| e.name.starts_with("xz")).count()}));
        }
    };
    if let Ok(rd) = std::fs::read_dir(files_dir) {
        let mut names: Vec<_> = rd.filter_map(|e| e.ok()).map(|e| e.path()).filter(|p| p.to_string_lossy().ends_with(".xz")).collect();
        names.sort();
        for p in names {
            if let Ok(d) = std::fs::read(&p) {
                add(&d, &p.file_name().unwrap().to_string_lossy(), rep, &mut trace);
            }
        }
    }
    // harness-serialised files: 0..40 blocks, every check type, size fields, header sizes, payload lengths mod 4
    let lib = crate::d_xz::payload_lib();
    let mut rng = StdRng::seed_from_u64(seed ^ 0x787a);
    for i in 0..60usize {
        let mut f = XzFile { check: [0u8, 1, 4][i % 3], ..Default::default() };
        let nb = [0usize, 1, 2, 5, 40][i % 5];
        for _ in 0..nb {
            let (p, o) = lib[rng.gen_range(0..lib.len())].clone();
            f.blocks.push(XzBlock { payload: p, content: o, hsize: [0usize, 16, 64, 260, 1024][rng.gen_range(0..5)], has_packed: rng.gen(), has_unpacked: rng.gen(), ..Default::default() });
        }
        add(&f.serialize().bytes, &format!("generated#{}", i), rep, &mut trace);
    }
    rep.add("trace_events", trace.len() as u64);
    std::fs::write(trace_path, trace.join("\n") + "\n").expect("write trace");
    rep.traces.push(trace_path.to_string());
    let _ = prop;
}

#[cfg(not(lzma_rs_verif))]
pub fn run_xz(_prop: &str, _seed: u64, _files_dir: &str, _trace_path: &str, rep: &mut Report) {
    rep.count("hooks_unavailable");
}

#[cfg(not(lzma_rs_verif))]
pub fn run(_prop: &str, _seed: u64, _files_dir: &str, _cap: usize, _trace_path: &str, rep: &mut Report) {
    rep.count("hooks_unavailable");
}
